/- helper lemmas for the cost theorems (C11) -/
import MelModel.VM.Exec
namespace Mel.VM
open Mel Mel.Gen

/-! ## the weight table -/

theorem opWeight_pos (op : Op) : 1 ≤ opWeight op := by
  cases op <;>
    simp only [opWeight, wNoop, wAdd, wSub, wMul, wDiv, wRem, wAnd, wOr, wXor, wNot, wEql, wLt,
      wGt, wShl, wShr, wStore, wLoad, wStoreImm, wLoadImm, wVRef, wVAppend, wVEmpty, wVLength,
      wVSlice, wVSet, wVPush, wVCons, wBRef, wBAppend, wBEmpty, wBLength, wBSlice, wBSet, wBPush,
      wBCons, wBez, wBnz, wJmp, wItoB, wBtoI, wTypeQ, wPushB, wPushI, wPushIC, wDup, wExpBase,
      wExpPerBit, wHashBase, wSigEOkBase, wLoopExtra] <;> omega

/-! ## `weightU` does not depend on the fuel -/

theorem weightUF_fuel_indep : ∀ (f1 f2 : Nat) (l : List Op),
    l.length < f1 → l.length < f2 → weightUF f1 l = weightUF f2 l := by
  intro f1
  induction f1 with
  | zero => intro f2 l h; omega
  | succ f1 ih =>
    intro f2 l h1 h2
    cases f2 with
    | zero => omega
    | succ f2 =>
      cases l with
      | nil => simp [weightUF]
      | cons op rest =>
        simp only [List.length_cons] at h1 h2
        simp only [weightUF]
        rw [ih f2 rest (by omega) (by omega)]
        cases op
        case loop it n =>
          simp only
          rw [ih f2 (rest.take n.toNat) (by simp only [List.length_take]; omega)
            (by simp only [List.length_take]; omega)]
        all_goals rfl

/-- car weight (`opcodes_car_weight`) in terms of `weightU` -/
def carU (op : Op) (rest : List Op) : Nat :=
  match op with
  | .loop it n => weightU (rest.take n.toNat) * it.toNat + wLoopExtra
  | op => opWeight op

@[simp] theorem weightU_nil : weightU [] = 0 := by simp [weightU, weightUF]

theorem weightU_cons (op : Op) (rest : List Op) :
    weightU (op :: rest) = carU op rest + weightU rest := by
  unfold weightU
  simp only [List.length_cons, weightUF]
  cases op
  case loop it n =>
    simp only [carU, weightU]
    rw [weightUF_fuel_indep (rest.length + 1) ((rest.take n.toNat).length + 1) (rest.take n.toNat)
      (by simp only [List.length_take]; omega) (by omega)]
  all_goals rfl

theorem opWeight_le_carU (op : Op) (rest : List Op) : opWeight op ≤ carU op rest := by
  cases op
  case loop it n => simp only [carU, opWeight]; omega
  all_goals exact Nat.le_refl _

theorem carU_pos (op : Op) (rest : List Op) : 1 ≤ carU op rest :=
  Nat.le_trans (opWeight_pos op) (opWeight_le_carU op rest)

theorem weightU_drop_le (l : List Op) (k : Nat) : weightU (l.drop k) ≤ weightU l := by
  induction k generalizing l with
  | zero => simp
  | succ k ih =>
    cases l with
    | nil => simp
    | cons op rest =>
      rw [List.drop_succ_cons, weightU_cons]
      exact Nat.le_trans (ih rest) (Nat.le_add_left _ _)

/-! ## window weights -/

/-- weight of the window `[a, b)` of the program (clipped to the program) -/
def winW (ops : List Op) (a b : Nat) : Nat := weightU ((ops.take b).drop a)

theorem winW_eq_zero (ops : List Op) {a b : Nat} (h : b ≤ a) : winW ops a b = 0 := by
  unfold winW
  rw [List.drop_eq_nil_of_le (by simp only [List.length_take]; omega)]
  exact weightU_nil

theorem winW_anti (ops : List Op) {a a' : Nat} (b : Nat) (h : a ≤ a') :
    winW ops a' b ≤ winW ops a b := by
  unfold winW
  have : (ops.take b).drop a' = ((ops.take b).drop a).drop (a' - a) := by
    rw [List.drop_drop]; congr 1; omega
  rw [this]
  exact weightU_drop_le _ _

theorem winW_clip (ops : List Op) (a b : Nat) : winW ops a (min b ops.length) = winW ops a b := by
  unfold winW
  congr 1
  rw [← List.take_take, List.take_length]

theorem winW_unfold (ops : List Op) {a b : Nat} (hab : a < b) (ha : a < ops.length) :
    winW ops a b = carU ops[a] ((ops.take b).drop (a + 1)) + winW ops (a + 1) b := by
  unfold winW
  have hlen : a < (ops.take b).length := by simp only [List.length_take]; omega
  rw [List.drop_eq_getElem_cons hlen, weightU_cons]
  simp [List.getElem_take]

theorem winW_ge_succ (ops : List Op) {a b : Nat} (hab : a < b) (ha : a < ops.length) :
    1 + winW ops (a + 1) b ≤ winW ops a b := by
  rw [winW_unfold ops hab ha]
  have := carU_pos ops[a] ((ops.take b).drop (a + 1))
  omega

theorem winW_loop (ops : List Op) {a b : Nat} (hab : a < b) (ha : a < ops.length)
    {it n : UInt16} (hop : ops[a] = Op.loop it n) :
    winW ops a b =
      winW ops (a + 1) (min (a + 1 + n.toNat) b) * it.toNat + wLoopExtra + winW ops (a + 1) b := by
  rw [winW_unfold ops hab ha, hop]
  simp only [carU, winW]
  rw [List.take_drop, List.take_take]

/-- strict decrease of the window weight when moving past an executable instruction -/
theorem winW_lt (ops : List Op) {a a' b : Nat} (hab : a < b) (ha : a < ops.length) (h : a < a') :
    1 + winW ops a' b ≤ winW ops a b := by
  have h1 := winW_ge_succ ops hab ha
  have h2 := winW_anti ops b (show a + 1 ≤ a' by omega)
  omega

/-! ## the potential -/

/-- potential of a machine state: an upper bound on the number of steps still to be executed -/
def phi (ops : List Op) (pc : Nat) : List LoopState → Nat
  | [] => winW ops pc ops.length
  | st :: rest =>
    winW ops pc (st.end_ + 1) + st.left * winW ops st.begin_ (st.end_ + 1)
      + phi ops (max pc (st.end_ + 1)) rest

theorem phi_anti (ops : List Op) (loops : List LoopState) {p p' : Nat} (h : p ≤ p') :
    phi ops p' loops ≤ phi ops p loops := by
  induction loops generalizing p p' with
  | nil => exact winW_anti ops _ h
  | cons st rest ih =>
    simp only [phi]
    have h1 := winW_anti ops (st.end_ + 1) h
    have h2 := ih (p := max p (st.end_ + 1)) (p' := max p' (st.end_ + 1)) (by omega)
    omega

/-- moving the pc forward from an executable position strictly decreases the potential -/
theorem phi_lt (ops : List Op) (loops : List LoopState) {p p' : Nat} (hp : p < ops.length)
    (h : p < p') : 1 + phi ops p' loops ≤ phi ops p loops := by
  induction loops generalizing p p' with
  | nil => exact winW_lt ops hp hp h
  | cons st rest ih =>
    simp only [phi]
    by_cases hpe : p < st.end_ + 1
    · have h1 := winW_lt ops hpe hp h
      have h2 := phi_anti ops rest (p := max p (st.end_ + 1)) (p' := max p' (st.end_ + 1))
        (by omega)
      omega
    · have h1 := winW_anti ops (st.end_ + 1) (Nat.le_of_lt h)
      have e1 : max p (st.end_ + 1) = p := by omega
      have e2 : max p' (st.end_ + 1) = p' := by omega
      rw [e1, e2]
      have h2 := ih hp h
      omega

theorem phi_pos (ops : List Op) (loops : List LoopState) {p : Nat} (hp : p < ops.length) :
    1 ≤ phi ops p loops := by
  have := phi_lt ops loops hp (Nat.lt_succ_self p)
  omega

/-- `update_pc_state` never increases the potential -/
theorem phi_updatePc (ops : List Op) (pc : Nat) (loops : List LoopState) :
    phi ops (updatePc pc loops).1 (updatePc pc loops).2 ≤ phi ops pc loops := by
  induction loops with
  | nil => simp [updatePc]
  | cons st rest ih =>
    simp only [updatePc]
    split
    · rename_i hgt
      split
      · rename_i hk
        simp only [phi]
        have e1 : max pc (st.end_ + 1) = st.end_ + 1 := by omega
        rw [e1]
        have h0 : winW ops pc (st.end_ + 1) = 0 := winW_eq_zero ops (by omega)
        have h2 := phi_anti ops rest (p := st.end_ + 1) (p' := max st.begin_ (st.end_ + 1))
          (by omega)
        have h3 : st.left * winW ops st.begin_ (st.end_ + 1) =
            winW ops st.begin_ (st.end_ + 1) + (st.left - 1) * winW ops st.begin_ (st.end_ + 1) := by
          obtain ⟨k, hk'⟩ : ∃ k, st.left = k + 1 := ⟨st.left - 1, by omega⟩
          rw [hk']; simp only [Nat.add_sub_cancel, Nat.succ_mul]; omega
        omega
      · simp only [phi]
        have e1 : max pc (st.end_ + 1) = pc := by omega
        rw [e1]
        omega
    · exact Nat.le_refl _

/-! ## one instruction -/

theorem bind_ok_some {x : Option (List Value)} {st st' : Exec}
    (h : (x.bind fun s => some { st with stack := s, pc := st.pc + 1 }) = some st') :
    st'.loops = st.loops ∧ st.pc < st'.pc := by
  cases x with
  | none => simp at h
  | some s => simp at h; subst h; simp

/-- what `execOp` does to the pc and the loop stack -/
theorem execOp_cases {o : Oracles} {op : Op} {st st' : Exec} (h : execOp o op st = some st') :
    (st'.loops = st.loops ∧ st.pc < st'.pc) ∨
    (∃ it n, op = .loop it n ∧ 0 < it.toNat ∧ st'.pc = st.pc + 1 ∧
      st'.loops = { begin_ := st.pc + 1, end_ := st.pc + 1 + n.toNat - 1, left := it.toNat - 1 }
        :: st.loops ∧
      (∀ last tl, st.loops = last :: tl → st.pc + 1 + n.toNat - 1 ≤ last.end_)) := by
  cases op
  case loop it n =>
    simp only [execOp] at h
    split at h
    · rename_i hit
      right
      refine ⟨it, n, rfl, hit, ?_⟩
      split at h
      · rename_i last tl hl
        split at h
        · simp at h
        · rename_i hle
          simp only [Option.some.injEq] at h
          subst h
          refine ⟨rfl, by simp, ?_⟩
          intro last' tl' hl'
          rw [hl] at hl'
          simp only [List.cons.injEq] at hl'
          rw [← hl'.1]
          omega
      · rename_i hl
        simp only [Option.some.injEq] at h
        subst h
        refine ⟨rfl, by simp [hl], ?_⟩
        intro last' tl' hl'
        rw [hl] at hl'
        simp at hl'
    · left
      simp only [Option.some.injEq] at h
      subst h
      simp
      omega
  all_goals
    left
    simp only [execOp] at h
    first
      | exact bind_ok_some h
      | (simp only [Option.some.injEq] at h; subst h; simp; done)
      | (simp only [Option.some.injEq] at h; subst h; simp; omega)
      | skip
  case store =>
    split at h
    · simp at h
      obtain ⟨a, _, rfl⟩ := h
      simp
    · simp at h
  case storeimm i =>
    split at h
    · simp only [Option.some.injEq] at h; subst h; simp
    · simp at h
  case dup =>
    split at h
    · simp only [Option.some.injEq] at h; subst h; simp
    · simp at h
  case load =>
    split at h
    · rename_i a rest _
      exact bind_ok_some (x := ((a.intoU16.bind fun addr => st.heap.get addr).map (· :: rest)))
        (by rw [← h]; cases (a.intoU16.bind fun addr => st.heap.get addr) <;> rfl)
    · simp at h
  case loadimm i =>
    exact bind_ok_some (x := ((st.heap.get i.toNat).map (· :: st.stack)))
      (by rw [← h]; cases (st.heap.get i.toNat) <;> rfl)
  case bez j =>
    split at h
    · split at h <;> (simp only [Option.some.injEq] at h; subst h; simp; try omega)
    · simp at h
  case bnz j =>
    split at h
    · split at h <;> (simp only [Option.some.injEq] at h; subst h; simp; try omega)
    · simp at h

theorem mul_pred_add (x k : Nat) (hk : 0 < k) : x + (k - 1) * x = x * k := by
  obtain ⟨j, rfl⟩ : ∃ j, k = j + 1 := ⟨k - 1, by omega⟩
  simp only [Nat.add_sub_cancel, Nat.mul_succ, Nat.mul_comm x j]
  omega

/-- a successful instruction body strictly decreases the potential -/
theorem phi_execOp {o : Oracles} {ops : List Op} {st st' : Exec} (hpc : st.pc < ops.length)
    (h : execOp o ops[st.pc] st = some st') :
    1 + phi ops st'.pc st'.loops ≤ phi ops st.pc st.loops := by
  rcases execOp_cases h with ⟨hl, hlt⟩ | ⟨it, n, hop, hit, hpc', hl', hchk⟩
  · rw [hl]; exact phi_lt ops _ hpc hlt
  · rw [hpc', hl']
    simp only [phi]
    have e : st.pc + 1 + n.toNat - 1 + 1 = st.pc + 1 + n.toNat := by omega
    have e2 : max (st.pc + 1) (st.pc + 1 + n.toNat) = st.pc + 1 + n.toNat := by omega
    rw [e, e2]
    have hw := opWeight_pos (.loop it n)
    simp only [opWeight] at hw
    have hm := mul_pred_add (winW ops (st.pc + 1) (st.pc + 1 + n.toNat)) it.toNat hit
    cases hloops : st.loops with
    | nil =>
      simp only [phi]
      have h1 := winW_loop ops hpc hpc hop
      rw [winW_clip] at h1
      have h2 := winW_anti ops ops.length (show st.pc + 1 ≤ st.pc + 1 + n.toNat by omega)
      omega
    | cons last tl =>
      have hle := hchk last tl hloops
      simp only [phi]
      have h1 := winW_loop ops (show st.pc < last.end_ + 1 by omega) hpc hop
      have e3 : min (st.pc + 1 + n.toNat) (last.end_ + 1) = st.pc + 1 + n.toNat := by omega
      have e4 : max (st.pc + 1 + n.toNat) (last.end_ + 1) = last.end_ + 1 := by omega
      have e5 : max st.pc (last.end_ + 1) = last.end_ + 1 := by omega
      rw [e3] at h1
      rw [e4, e5]
      have h2 := winW_anti ops (last.end_ + 1) (show st.pc + 1 ≤ st.pc + 1 + n.toNat by omega)
      omega

/-- a successful `step` strictly decreases the potential -/
theorem phi_step {o : Oracles} {ops : List Op} {st st' : Exec} (hpc : st.pc < ops.length)
    (h : step o ops st = some st') :
    1 + phi ops st'.pc st'.loops ≤ phi ops st.pc st.loops := by
  unfold step at h
  rw [List.getElem?_eq_getElem hpc] at h
  simp only at h
  split at h
  · simp at h
  · rename_i st1 hex
    simp only [Option.some.injEq] at h
    subst h
    have h1 := phi_execOp hpc hex
    have h2 := phi_updatePc ops st1.pc st1.loops
    simp only
    omega

/-- the number of steps executed from any state is bounded by its potential -/
theorem runFuel_steps_le (o : Oracles) (ops : List Op) : ∀ (fuel : Nat) (st : Exec) (n : Nat),
    (runFuel o ops fuel st n).2 ≤ n + phi ops st.pc st.loops := by
  intro fuel
  induction fuel with
  | zero => intro st n; simp [runFuel]
  | succ fuel ih =>
    intro st n
    simp only [runFuel]
    split
    · rename_i hpc
      split
      · have := phi_pos ops st.loops hpc
        simp only
        omega
      · rename_i st' hs
        have h1 := phi_step hpc hs
        have h2 := ih st' (n + 1)
        omega
    · simp

/-- fuel above the potential is never exhausted -/
theorem runFuel_fuel_indep (o : Oracles) (ops : List Op) : ∀ (f1 f2 : Nat) (st : Exec) (n : Nat),
    phi ops st.pc st.loops < f1 → phi ops st.pc st.loops < f2 →
    runFuel o ops f1 st n = runFuel o ops f2 st n := by
  intro f1
  induction f1 with
  | zero => intro f2 st n h; omega
  | succ f1 ih =>
    intro f2 st n h1 h2
    cases f2 with
    | zero => omega
    | succ f2 =>
      simp only [runFuel]
      split
      · rename_i hpc
        split
        · rfl
        · rename_i st' hs
          have h3 := phi_step hpc hs
          exact ih f2 st' (n + 1) (by omega) (by omega)
      · rfl

theorem phi_init (ops : List Op) (heap : Heap) :
    phi ops (initExec heap).pc (initExec heap).loops = weightU ops := by
  simp [initExec, phi, winW]

/-! ## saturation -/

theorem min_mul_sat (a c M : Nat) : min (min a M * c) M = min (a * c) M := by
  by_cases h : a ≤ M
  · rw [Nat.min_eq_left h]
  · have hM : M < a := by omega
    rw [Nat.min_eq_right (Nat.le_of_lt hM)]
    cases c with
    | zero => simp
    | succ c =>
      have h1 : M ≤ M * (c + 1) := Nat.le_mul_of_pos_right _ (by omega)
      have h2 : M * (c + 1) ≤ a * (c + 1) := Nat.mul_le_mul_right _ (Nat.le_of_lt hM)
      omega

theorem weightSF_eq (fuel : Nat) (l : List Op) :
    weightSF fuel l = min (weightUF fuel l) U128_MAX := by
  induction fuel generalizing l with
  | zero => simp [weightSF, weightUF]
  | succ fuel ih =>
    cases l with
    | nil => simp [weightSF, weightUF]
    | cons op rest =>
      simp only [weightSF, weightUF, ih rest]
      cases op
      case loop it n =>
        simp only [ih (rest.take n.toNat), satAdd128, satMul128]
        have := min_mul_sat (weightUF fuel (rest.take n.toNat)) it.toNat U128_MAX
        omega
      all_goals (simp only [satAdd128]; omega)

/-! ## cost of weighing -/

theorem weighWorkF_replicate (it : UInt16) : ∀ (f n : Nat), n < f → n ≤ 1001 →
    weighWorkF f (List.replicate n (Op.loop it 1000)) + 1 = 2 ^ n := by
  intro f
  induction f with
  | zero => intro n h; omega
  | succ f ih =>
    intro n h hn
    cases n with
    | zero => simp [weighWorkF]
    | succ m =>
      simp only [List.replicate_succ, weighWorkF]
      have e : (List.replicate m (Op.loop it 1000)).take (1000 : UInt16).toNat
          = List.replicate m (Op.loop it 1000) := by
        rw [List.take_of_length_le]
        simp only [List.length_replicate]
        show m ≤ 1000
        omega
      rw [e]
      have := ih m (by omega) (by omega)
      rw [Nat.pow_succ]
      omega

/-- beyond 1001 stacked `Loop _ 1000` the body slice is clipped and the count stops doubling -/
theorem weighWorkF_replicate_clipped (it : UInt16) (f k : Nat) (hk : k = 1000) (hf : k + 2 < f) :
    weighWorkF f (List.replicate (k + 2) (Op.loop it 1000)) + 1 = 3 * 2 ^ k := by
  obtain ⟨f', rfl⟩ : ∃ f', f = f' + 1 := ⟨f - 1, by omega⟩
  simp only [List.replicate_succ (n := k + 1), weighWorkF]
  have e : (List.replicate (k + 1) (Op.loop it 1000)).take (1000 : UInt16).toNat
      = List.replicate k (Op.loop it 1000) := by
    rw [List.take_replicate]
    congr 1
    show min 1000 (k + 1) = k
    omega
  rw [e]
  have h0 := weighWorkF_replicate it f' k (by omega) (by omega)
  have h1 := weighWorkF_replicate it f' (k + 1) (by omega) (by omega)
  rw [Nat.pow_succ] at h1
  omega

end Mel.VM
