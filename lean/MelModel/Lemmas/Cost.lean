/- helper lemmas for the cost theorems (C11) -/
import MelModel.VM.Exec
namespace Mel.VM
open Mel
end Mel.VM
