/- helper lemmas for C20 -/
import MelModel.Chain
namespace Mel
end Mel
