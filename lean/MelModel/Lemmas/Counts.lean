/- helper lemmas for C20 -/
import MelModel.Chain
namespace Mel

namespace AList
variable {κ ν : Type} [DecidableEq κ]

theorem get_cons (k' : κ) (v : ν) (rest : AList κ ν) (k : κ) :
    get ((k', v) :: rest) k = if k' = k then some v else get rest k := by
  simp [get]

theorem del_cons (k' : κ) (v : ν) (rest : AList κ ν) (k : κ) :
    del ((k', v) :: rest) k = if k' = k then del rest k else (k', v) :: del rest k := by
  by_cases h : k' = k <;> simp [del, h]

theorem mem_del {m : AList κ ν} {k : κ} {e : κ × ν} : e ∈ del m k ↔ e ∈ m ∧ e.1 ≠ k := by
  simp [del]

theorem get_del_self (m : AList κ ν) (k : κ) : get (del m k) k = none := by
  induction m with
  | nil => rfl
  | cons e rest ih =>
    obtain ⟨k', v⟩ := e
    rw [del_cons]
    by_cases h : k' = k
    · simp [h, ih]
    · simp [h, get_cons, ih]

theorem get_del_ne (m : AList κ ν) {k k' : κ} (hne : k' ≠ k) : get (del m k) k' = get m k' := by
  induction m with
  | nil => rfl
  | cons e rest ih =>
    obtain ⟨k₀, v⟩ := e
    rw [del_cons]
    by_cases h : k₀ = k
    · have : k₀ ≠ k' := by intro h'; exact hne (h' ▸ h)
      simp [h, get_cons, ih]
      intro h2; exact absurd (h2 ▸ rfl) hne
    · simp [h, get_cons, ih]

theorem get_set_self (m : AList κ ν) (k : κ) (v : ν) : get (set m k v) k = some v := by
  simp [set, get_cons]

theorem get_set_ne (m : AList κ ν) {k k' : κ} (v : ν) (hne : k' ≠ k) :
    get (set m k v) k' = get m k' := by
  have : k ≠ k' := fun h => hne h.symm
  simp [set, get_cons, this, get_del_ne m hne]

theorem get_eq_none_iff_not_mem_keys (m : AList κ ν) (k : κ) : get m k = none ↔ k ∉ keys m := by
  induction m with
  | nil => simp [get, keys]
  | cons e rest ih =>
    obtain ⟨k', v⟩ := e
    by_cases h : k' = k
    · simp [get_cons, keys, h]
    · have h' : ¬ k = k' := fun h2 => h h2.symm
      simp only [get_cons, h, if_false, ih]
      simp [keys, h']

theorem mem_of_get_eq_some {m : AList κ ν} {k : κ} {v : ν} (h : get m k = some v) : (k, v) ∈ m := by
  induction m with
  | nil => simp [get] at h
  | cons e rest ih =>
    obtain ⟨k', v'⟩ := e
    rw [get_cons] at h
    by_cases hk : k' = k
    · simp [hk] at h; simp [hk, h]
    · simp [hk] at h; exact List.mem_cons_of_mem _ (ih h)

omit [DecidableEq κ] in
theorem mem_keys_of_mem {m : AList κ ν} {k : κ} {v : ν} (h : (k, v) ∈ m) : k ∈ keys m := by
  simp only [keys, List.mem_map]; exact ⟨(k, v), h, rfl⟩

theorem get_eq_some_of_mem {m : AList κ ν} {k : κ} {v : ν} (hn : (keys m).Nodup) (h : (k, v) ∈ m) :
    get m k = some v := by
  induction m with
  | nil => simp at h
  | cons e rest ih =>
    obtain ⟨k', v'⟩ := e
    simp only [keys, List.map_cons, List.nodup_cons] at hn
    rw [get_cons]
    rcases List.mem_cons.mp h with h | h
    · simp at h; simp [h.1, h.2]
    · have hk : k ∈ keys rest := mem_keys_of_mem h
      have : k' ≠ k := by intro h'; exact hn.1 (h' ▸ hk)
      simp [this]; exact ih hn.2 h

theorem keys_del_sublist (m : AList κ ν) (k : κ) : (keys (del m k)).Sublist (keys m) :=
  List.Sublist.map _ List.filter_sublist

theorem keys_nodup_del {m : AList κ ν} (k : κ) (h : (keys m).Nodup) : (keys (del m k)).Nodup :=
  List.Nodup.sublist (keys_del_sublist m k) h

theorem not_mem_keys_del (m : AList κ ν) (k : κ) : k ∉ keys (del m k) :=
  (get_eq_none_iff_not_mem_keys _ _).mp (get_del_self m k)

theorem keys_nodup_set {m : AList κ ν} (k : κ) (v : ν) (h : (keys m).Nodup) :
    (keys (set m k v)).Nodup := by
  simp only [set, keys, List.map_cons, List.nodup_cons]
  exact ⟨not_mem_keys_del m k, keys_nodup_del k h⟩

theorem del_eq_self_of_get_none {m : AList κ ν} {k : κ} (h : get m k = none) : del m k = m := by
  induction m with
  | nil => rfl
  | cons e rest ih =>
    obtain ⟨k', v⟩ := e
    rw [get_cons] at h
    by_cases hk : k' = k
    · simp [hk] at h
    · simp [hk] at h; rw [del_cons]; simp [hk, ih h]

/-- deleting a present key removes exactly one entry from every filter -/
theorem filter_del_length {m : AList κ ν} {k : κ} {old : ν} (p : κ × ν → Bool)
    (hn : (keys m).Nodup) (h : get m k = some old) :
    ((del m k).filter p).length + (if p (k, old) then 1 else 0) = (m.filter p).length := by
  induction m with
  | nil => simp [get] at h
  | cons e rest ih =>
    obtain ⟨k', v⟩ := e
    simp only [keys, List.map_cons, List.nodup_cons] at hn
    rw [get_cons] at h
    rw [del_cons]
    by_cases hk : k' = k
    · subst hk
      simp at h; subst h
      have hnone : get rest k' = none := (get_eq_none_iff_not_mem_keys _ _).mpr hn.1
      simp only [if_true, del_eq_self_of_get_none hnone, List.filter_cons]
      split <;> simp
    · simp only [hk, if_false] at h ⊢
      have := ih hn.2 h
      simp only [List.filter_cons]
      by_cases hp : p (k', v) <;> simp [hp] <;> omega

/-- with unique keys, filtered lengths only depend on the lookup function -/
theorem filter_length_congr (p : κ × ν → Bool) :
    ∀ (m₁ m₂ : AList κ ν), (keys m₁).Nodup → (keys m₂).Nodup → (∀ k, get m₁ k = get m₂ k) →
      (m₁.filter p).length = (m₂.filter p).length := by
  intro m₁
  induction m₁ with
  | nil =>
    intro m₂ _ _ hg
    cases m₂ with
    | nil => rfl
    | cons e rest =>
      obtain ⟨k, v⟩ := e
      have := hg k
      simp [get] at this
  | cons e rest ih =>
    obtain ⟨k, v⟩ := e
    intro m₂ h₁ h₂ hg
    have hk : get m₂ k = some v := by rw [← hg k]; simp [get_cons]
    simp only [keys, List.map_cons, List.nodup_cons] at h₁
    have hrest : ∀ k', get rest k' = get (del m₂ k) k' := by
      intro k'
      by_cases hkk : k' = k
      · subst hkk
        rw [get_del_self]; exact (get_eq_none_iff_not_mem_keys _ _).mpr h₁.1
      · rw [get_del_ne m₂ hkk, ← hg k', get_cons]
        have : ¬ k = k' := fun h => hkk h.symm
        simp [this]
    have hih := ih (del m₂ k) h₁.2 (keys_nodup_del k h₂) hrest
    have hdel := filter_del_length p h₂ hk
    simp only [List.filter_cons]
    split <;> simp_all <;> omega

end AList

/-- one step of the TIP-906 initialisation fold -/
def tip906Step (acc : CoinMap) (e : CoinID × CoinDataHeight) : CoinMap :=
  acc.insertCoinCount e.2.coinData.covhash (acc.coinCount e.2.coinData.covhash + 1)

theorem tip906Step_eq (acc : CoinMap) (e : CoinID × CoinDataHeight) :
    tip906Step acc e =
      { acc with counts := acc.counts.set e.2.coinData.covhash (acc.coinCount e.2.coinData.covhash + 1) } := by
  simp [tip906Step, CoinMap.insertCoinCount]

/-- invariant of the TIP-906 fold over any list of coin entries: the coins are untouched, the count
    keys stay unique, each count grows by the number of processed entries, no zero entry appears -/
theorem tip906_fold_inv (l : List (CoinID × CoinDataHeight)) :
    ∀ acc : CoinMap, (AList.keys acc.counts).Nodup → (∀ e ∈ acc.counts, e.2 ≠ 0) →
      (l.foldl tip906Step acc).coins = acc.coins ∧
      (AList.keys (l.foldl tip906Step acc).counts).Nodup ∧
      (∀ a, (l.foldl tip906Step acc).coinCount a =
        acc.coinCount a + (l.filter fun e => e.2.coinData.covhash = a).length) ∧
      (∀ e ∈ (l.foldl tip906Step acc).counts, e.2 ≠ 0) := by
  induction l with
  | nil => intro acc hn hz; exact ⟨rfl, hn, by simp, hz⟩
  | cons x rest ih =>
    intro acc hn hz
    have hn' : (AList.keys (tip906Step acc x).counts).Nodup := by
      rw [tip906Step_eq]; exact AList.keys_nodup_set _ _ hn
    have hz' : ∀ e ∈ (tip906Step acc x).counts, e.2 ≠ 0 := by
      rw [tip906Step_eq]
      intro e he
      simp only [AList.set, List.mem_cons] at he
      rcases he with he | he
      · subst he; simp
      · exact hz e (AList.mem_del.mp he).1
    obtain ⟨i1, i2, i3, i4⟩ := ih (tip906Step acc x) hn' hz'
    simp only [List.foldl_cons]
    refine ⟨by rw [i1, tip906Step_eq], i2, ?_, i4⟩
    intro a
    rw [i3 a, tip906Step_eq]
    simp only [CoinMap.coinCount, List.filter_cons]
    by_cases ha : a = x.2.coinData.covhash
    · subst ha
      rw [AList.get_set_self]; simp; omega
    · have ha' : ¬ x.2.coinData.covhash = a := fun h => ha h.symm
      rw [AList.get_set_ne _ _ ha]; simp [ha']

end Mel
