/- helper lemmas about applyBatch (C02, C03, C05, C13, C19) -/
import MelModel.ApplyTx
import MelModel.Lemmas.Counts
namespace Mel
-- declarations whose names also occur in other lemma/property files live in `Mel.BatchL`
namespace BatchL namespace Outcome end Outcome end BatchL
open BatchL BatchL.Outcome

/-! ### Outcome combinators -/
namespace Outcome

theorem _root_.Mel.BatchL.Outcome.bind_eq_ok {α β} {x : Outcome α} {f : α → Outcome β} {r : β} :
    x.bind f = .ok r ↔ ∃ a, x = .ok a ∧ f a = .ok r := by
  cases x <;> simp [bind]

theorem foldlM'_cons_ok {α β} (f : β → α → Outcome β) (b : β) (a : α) (as : List α) (r : β) :
    foldlM' f b (a :: as) = .ok r ↔ ∃ b', f b a = .ok b' ∧ foldlM' f b' as = .ok r := by
  simp only [foldlM']
  cases f b a <;> simp

theorem foldlM'_nil_ok {α β} (f : β → α → Outcome β) (b r : β) :
    foldlM' f b ([] : List α) = .ok r ↔ b = r := by
  simp [foldlM']

theorem forM'_eq_ok {α} (f : α → Outcome Unit) (l : List α) :
    forM' f l = .ok () ↔ ∀ a ∈ l, f a = .ok () := by
  induction l with
  | nil => simp [forM']
  | cons a as ih =>
    simp only [forM']
    cases h : f a <;> simp [h, ih]

end Outcome

/-! ### association lists -/
namespace AList
variable {κ ν : Type} [DecidableEq κ]

theorem get_append (a b : AList κ ν) (k : κ) :
    get (a ++ b) k = match get a k with | some v => some v | none => get b k := by
  induction a with
  | nil => simp [get]
  | cons e rest ih =>
    obtain ⟨k', v⟩ := e
    simp only [List.cons_append, get_cons]
    by_cases h : k' = k
    · simp [h]
    · simp [h, ih]

/-- `extend`: the LAST entry of `es` with key `k` wins, else the old map -/
theorem get_extend (m : AList κ ν) (es : List (κ × ν)) (k : κ) :
    get (extend m es) k = match get es.reverse k with | some v => some v | none => get m k := by
  induction es generalizing m with
  | nil => simp [extend, get]
  | cons e rest ih =>
    have h1 : extend m (e :: rest) = extend (set m e.1 e.2) rest := rfl
    rw [h1, ih, List.reverse_cons, get_append]
    cases hr : get rest.reverse k with
    | some v => rfl
    | none =>
      obtain ⟨k', v⟩ := e
      simp only [get_cons]
      by_cases h : k' = k
      · subst h; simp [get_set_self]
      · have h' : k ≠ k' := fun h2 => h h2.symm
        simp [h, get_set_ne _ _ h', get]

end AList

/-! ### coin maps -/
namespace CoinMap

theorem getCoin_insertCoin (m : CoinMap) (id : CoinID) (d : CoinDataHeight) (t : Bool) (k : CoinID) :
    (m.insertCoin id d t).getCoin k = if k = id then some d else m.getCoin k := by
  have hc : (m.insertCoin id d t).coins = m.coins.set id d := by
    simp only [insertCoin]; split <;> rfl
  simp only [getCoin, hc]
  by_cases h : k = id
  · subst h; simp [AList.get_set_self]
  · simp [h, AList.get_set_ne _ _ h]

theorem coins_removeCoin {m m' : CoinMap} {id : CoinID} {t : Bool} (h : m.removeCoin id t = .ok m') :
    m'.coins = m.coins.del id := by
  simp only [removeCoin] at h
  split at h
  · split at h
    · split at h
      · cases h
      · cases h; rfl
    · cases h; rfl
  · cases h; rfl

theorem getCoin_removeCoin {m m' : CoinMap} {id : CoinID} {t : Bool} (h : m.removeCoin id t = .ok m')
    (k : CoinID) : m'.getCoin k = if k = id then none else m.getCoin k := by
  simp only [getCoin, coins_removeCoin h]
  by_cases hk : k = id
  · subst hk; simp [AList.get_del_self]
  · simp [hk, AList.get_del_ne _ hk]

theorem getCoin_removeCoins (t : Bool) (ids : List CoinID) :
    ∀ (m m' : CoinMap), Outcome.foldlM' (fun (c : CoinMap) id => c.removeCoin id t) m ids = .ok m' →
      ∀ k, m'.getCoin k = if k ∈ ids then none else m.getCoin k := by
  induction ids with
  | nil =>
    intro m m' h k
    rw [Outcome.foldlM'_nil_ok] at h
    subst h; simp
  | cons id rest ih =>
    intro m m' h k
    rw [Outcome.foldlM'_cons_ok] at h
    obtain ⟨m1, h1, h2⟩ := h
    rw [ih m1 m' h2 k, getCoin_removeCoin h1 k]
    by_cases hk : k = id
    · simp [hk]
    · simp [hk]

end CoinMap

/-! ### the coins created by a batch -/

/-- the `created` map of `loadRelevantCoins` (identical to `batchCreated` of C02) -/
def createdOf (height : Nat) (txs : List Tx) : Relevant :=
  txs.foldl (fun acc tx => acc.extend (outputCoinsFromTx tx height)) []

/-- the ids `createNextState` tries to insert -/
def outputIds (txs : List Tx) : List CoinID :=
  txs.flatMap fun tx => (List.range tx.outputs.length).map fun i => { txhash := tx.hash, index := i % 256 }

theorem get_foldl_extend_some {α κ ν : Type} [DecidableEq κ] (F : α → List (κ × ν)) (l : List α) :
    ∀ (acc : AList κ ν) (k : κ) (c : ν),
      AList.get (l.foldl (fun acc a => AList.extend acc (F a)) acc) k = some c →
      AList.get acc k = some c ∨ ∃ a ∈ l, (k, c) ∈ F a := by
  induction l with
  | nil => intro acc k c h; exact Or.inl h
  | cons a rest ih =>
    intro acc k c h
    rcases ih _ k c h with h1 | ⟨b, hb, hm⟩
    · rw [AList.get_extend] at h1
      cases hr : AList.get (F a).reverse k with
      | some v =>
        rw [hr] at h1
        simp only [Option.some.injEq] at h1; subst h1
        have := AList.mem_of_get_eq_some hr
        exact Or.inr ⟨a, List.mem_cons_self, List.mem_reverse.mp this⟩
      | none => rw [hr] at h1; exact Or.inl h1
    · exact Or.inr ⟨b, List.mem_cons_of_mem _ hb, hm⟩

theorem mem_outputCoinsFromTx {tx : Tx} {height : Nat} {k : CoinID} {c : CoinDataHeight}
    (h : (k, c) ∈ outputCoinsFromTx tx height) :
    ∃ i o, tx.outputs[i]? = some o ∧ k = { txhash := tx.hash, index := i % 256 } ∧ c.height = height ∧
      c.coinData.covhash ≠ coinDestroy ∧
      c.coinData = (if o.denom = .newCustom then { o with denom := .custom tx.hash } else o) := by
  simp only [outputCoinsFromTx, List.mem_filterMap] at h
  obtain ⟨⟨o, i⟩, hmem, hf⟩ := h
  rw [List.mem_zipIdx_iff_getElem?] at hmem
  simp only at hmem hf
  by_cases hne : (if o.denom = .newCustom then ({ o with denom := .custom tx.hash } : CoinData) else o).covhash
      ≠ coinDestroy
  · rw [if_pos hne] at hf
    simp only [Option.some.injEq, Prod.mk.injEq] at hf
    obtain ⟨hk, hc⟩ := hf
    subst hk; subst hc
    exact ⟨i, o, hmem, rfl, rfl, hne, rfl⟩
  · rw [if_neg hne] at hf
    cases hf

theorem createdOf_get_some {height : Nat} {txs : List Tx} {k : CoinID} {c : CoinDataHeight}
    (h : (createdOf height txs).get k = some c) :
    ∃ tx ∈ txs, (k, c) ∈ outputCoinsFromTx tx height := by
  rcases get_foldl_extend_some (fun tx => outputCoinsFromTx tx height) txs [] k c h with h1 | h1
  · simp [AList.get] at h1
  · exact h1

theorem createdOf_key_mem_outputIds {height : Nat} {txs : List Tx} {k : CoinID} {c : CoinDataHeight}
    (h : (createdOf height txs).get k = some c) : k ∈ outputIds txs := by
  obtain ⟨tx, htx, hm⟩ := createdOf_get_some h
  obtain ⟨i, o, ho, hk, -⟩ := mem_outputCoinsFromTx hm
  simp only [outputIds, List.mem_flatMap, List.mem_map, List.mem_range]
  refine ⟨tx, htx, i, ?_, hk.symm⟩
  exact (List.getElem?_eq_some_iff.mp ho).1

theorem createdOf_content {height : Nat} {txs : List Tx} {id : CoinID} {c : CoinDataHeight}
    (hwf : ∀ tx ∈ txs, tx.outputs.length ≤ 256)
    (h : (createdOf height txs).get id = some c) :
    c.height = height ∧ c.coinData.covhash ≠ coinDestroy ∧ c.coinData.denom ≠ .newCustom ∧
    ∃ tx ∈ txs, ∃ o ∈ tx.outputs, id.txhash = tx.hash ∧ tx.outputs[id.index]? = some o ∧
      c.coinData.value = o.value ∧ c.coinData.covhash = o.covhash ∧ c.coinData.additionalData = o.additionalData ∧
      c.coinData.denom = (if o.denom = .newCustom then .custom tx.hash else o.denom) := by
  obtain ⟨tx, htx, hm⟩ := createdOf_get_some h
  obtain ⟨i, o, ho, hk, hh, hcov, hcd⟩ := mem_outputCoinsFromTx hm
  have hi : i < tx.outputs.length := (List.getElem?_eq_some_iff.mp ho).1
  have hmod : i % 256 = i := Nat.mod_eq_of_lt (Nat.lt_of_lt_of_le hi (hwf tx htx))
  rw [hmod] at hk
  subst hk
  refine ⟨hh, hcov, ?_, tx, htx, o, List.mem_of_getElem? ho, rfl, ho, ?_, ?_, ?_, ?_⟩
  · rw [hcd]; split
    · simp
    · assumption
  · rw [hcd]; split <;> rfl
  · rw [hcd]; split <;> rfl
  · rw [hcd]; split <;> rfl
  · rw [hcd]; split
    · simp
    · simp

/-! ### `loadRelevantCoins` -/

/-- one step of `extract_input_coins` -/
def diskStep (created : Relevant) (coins : CoinMap) (acc : Relevant) (inp : CoinID) : Outcome Relevant :=
  if created.contains inp then .ok acc
  else match coins.getCoin inp with
    | some c => .ok (acc.set inp c)
    | none => .reject .nonexistentCoin

theorem diskStep_ok {created : Relevant} {coins : CoinMap} {acc acc' : Relevant} {inp : CoinID}
    (h : diskStep created coins acc inp = .ok acc') :
    (created.contains inp = true ∧ acc' = acc) ∨
    (created.get inp = none ∧ ∃ c, coins.getCoin inp = some c ∧ acc' = acc.set inp c) := by
  simp only [diskStep] at h
  split at h
  · rename_i hc; cases h; exact Or.inl ⟨hc, rfl⟩
  · rename_i hc
    have hn : created.get inp = none := by
      simp only [AList.contains] at hc
      cases hg : created.get inp with
      | none => rfl
      | some v => simp [hg] at hc
    split at h
    · rename_i c hcoin; cases h; exact Or.inr ⟨hn, c, hcoin, rfl⟩
    · cases h

theorem diskFold_inv (created : Relevant) (coins : CoinMap) (l : List CoinID) :
    ∀ (acc disk : Relevant), Outcome.foldlM' (diskStep created coins) acc l = .ok disk →
      (∀ inp ∈ l, (coins.getCoin inp).isSome ∨ (created.get inp).isSome) ∧
      (∀ k c, disk.get k = some c → acc.get k = some c ∨ (created.get k = none ∧ coins.getCoin k = some c)) := by
  induction l with
  | nil =>
    intro acc disk h
    rw [Outcome.foldlM'_nil_ok] at h; subst h
    exact ⟨by simp, fun k c hk => Or.inl hk⟩
  | cons inp rest ih =>
    intro acc disk h
    rw [Outcome.foldlM'_cons_ok] at h
    obtain ⟨acc1, h1, h2⟩ := h
    obtain ⟨i1, i2⟩ := ih acc1 disk h2
    rcases diskStep_ok h1 with ⟨hc, rfl⟩ | ⟨hn, c0, hcoin, rfl⟩
    · refine ⟨?_, i2⟩
      intro x hx
      rcases List.mem_cons.mp hx with rfl | hx
      · exact Or.inr hc
      · exact i1 x hx
    · refine ⟨?_, ?_⟩
      · intro x hx
        rcases List.mem_cons.mp hx with rfl | hx
        · exact Or.inl (by simp [hcoin])
        · exact i1 x hx
      · intro k c hk
        rcases i2 k c hk with h3 | h3
        · by_cases hki : k = inp
          · subst hki
            rw [AList.get_set_self] at h3
            simp only [Option.some.injEq] at h3; subst h3
            exact Or.inr ⟨hn, hcoin⟩
          · rw [AList.get_set_ne _ _ hki] at h3; exact Or.inl h3
        · exact Or.inr h3

theorem loadRelevantCoins_eq (s : State) (txs : List Tx) :
    loadRelevantCoins s txs =
      if !(txs.all fun tx => tx.isWellFormed && tx.melTotalFits && tx.covWeightsFit) then .reject .malformedTx else
      (Outcome.foldlM' (diskStep (createdOf s.height txs) s.coins) [] (txs.flatMap (·.inputs))).bind fun disk =>
        if (txs.flatMap (·.inputs)).Nodup then .ok ((createdOf s.height txs).extend disk.reverse)
        else .reject .nonexistentCoin := rfl

/-- everything `loadRelevantCoins` guarantees when it succeeds -/
theorem loadRelevantCoins_ok {s : State} {txs : List Tx} {rel : Relevant}
    (h : loadRelevantCoins s txs = .ok rel) :
    (∀ tx ∈ txs, tx.isWellFormed = true ∧ tx.melTotalFits = true ∧ tx.covWeightsFit = true) ∧
    (txs.flatMap (·.inputs)).Nodup ∧
    (∀ inp ∈ txs.flatMap (·.inputs), (s.coins.getCoin inp).isSome ∨ ((createdOf s.height txs).get inp).isSome) ∧
    (∀ k c, (createdOf s.height txs).get k = some c → rel.get k = some c) ∧
    (∀ k c, (createdOf s.height txs).get k = none → rel.get k = some c → s.coins.getCoin k = some c) := by
  rw [loadRelevantCoins_eq] at h
  split at h
  · cases h
  · rename_i hwf
    rw [Outcome.bind_eq_ok] at h
    obtain ⟨disk, hd, h⟩ := h
    split at h
    · rename_i hnd
      cases h
      obtain ⟨i1, i2⟩ := diskFold_inv _ _ _ _ _ hd
      have hwf' : ∀ tx ∈ txs, tx.isWellFormed = true ∧ tx.melTotalFits = true ∧ tx.covWeightsFit = true := by
        simpa [and_assoc] using hwf
      have hdisk : ∀ k c, disk.get k = some c →
          (createdOf s.height txs).get k = none ∧ s.coins.getCoin k = some c := by
        intro k c hk
        rcases i2 k c hk with h3 | h3
        · simp [AList.get] at h3
        · exact h3
      refine ⟨hwf', hnd, i1, ?_, ?_⟩
      · intro k c hk
        rw [AList.get_extend, List.reverse_reverse]
        cases hdk : disk.get k with
        | none => exact hk
        | some v => have := (hdisk k v hdk).1; rw [hk] at this; cases this
      · intro k c hk hr
        rw [AList.get_extend, List.reverse_reverse] at hr
        cases hdk : disk.get k with
        | none => rw [hdk] at hr; simp only at hr; rw [hk] at hr; cases hr
        | some v =>
          rw [hdk] at hr; simp only [Option.some.injEq] at hr; subst hr
          exact (hdisk k v hdk).2
    · cases h

/-! ### `createNextState` -/

/-- first pass of `createNextState`: insert one output coin, if it is relevant -/
def insStep (rel : Relevant) (t : Bool) (coins : CoinMap) (id : CoinID) : CoinMap :=
  match rel.get id with
  | some cd => coins.insertCoin id cd t
  | none => coins

theorem getCoin_insStep (rel : Relevant) (t : Bool) (coins : CoinMap) (id k : CoinID) :
    (insStep rel t coins id).getCoin k =
      if k = id then (match rel.get k with | some c => some c | none => coins.getCoin k)
      else coins.getCoin k := by
  simp only [insStep]
  by_cases hk : k = id
  · subst hk
    cases hr : rel.get k with
    | none => simp
    | some c => simp [CoinMap.getCoin_insertCoin]
  · cases hr : rel.get id with
    | none => simp [hk]
    | some c => simp [CoinMap.getCoin_insertCoin, hk]

theorem getCoin_insFold (rel : Relevant) (t : Bool) (L : List CoinID) :
    ∀ (coins : CoinMap) (k : CoinID), (L.foldl (insStep rel t) coins).getCoin k =
      if k ∈ L then (match rel.get k with | some c => some c | none => coins.getCoin k)
      else coins.getCoin k := by
  induction L with
  | nil => intro coins k; simp
  | cons id rest ih =>
    intro coins k
    rw [List.foldl_cons, ih, getCoin_insStep]
    by_cases h1 : k = id
    · subst h1
      cases hr : rel.get k <;> simp
    · by_cases h2 : k ∈ rest <;> simp [h1, h2]

/-- second pass of `createNextState`: one transaction -/
def nextStep (env : Env) (t : Bool) (st : State) (tx : Tx) : Outcome State :=
  if st.txs.any (fun t => t.hash = tx.hash) then .reject .duplicateTx else
  (if tx.kind = .faucet then handleFaucetTx env st tx else .ok st).bind fun st1 =>
  (Outcome.foldlM' (fun (coins : CoinMap) id => coins.removeCoin id t) st1.coins tx.inputs).bind fun coins2 =>
  (tx.baseFee st1.feeMultiplier).bind fun minFee =>
    if tx.fee < minFee then .reject .insufficientFees
    else .ok { st1 with coins := coins2,
                        tips := satAdd128 st1.tips (tx.fee - minFee),
                        feePool := satAdd128 st1.feePool minFee,
                        txs := State.insertTx st1.txs tx }

theorem createNextState_eq (env : Env) (s : State) (txs : List Tx) (rel : Relevant) (t : Bool) :
    createNextState env s txs rel t =
      Outcome.foldlM' (nextStep env t) { s with coins := (outputIds txs).foldl (insStep rel t) s.coins } txs := by
  simp only [outputIds, List.foldl_flatMap, List.foldl_map]
  rfl

def faucetMarker : CoinDataHeight :=
  { coinData := { denom := .mel, value := 0, additionalData := [], covhash := zeroHash }, height := 0 }

/-- does this transaction insert a faucet de-duplication marker? -/
def insertsMarker (env : Env) (tx : Tx) : Bool := tx.kind = .faucet && !env.isGrandfathered tx.hash

def BatchL.markerOf (env : Env) (tx : Tx) : CoinID := { txhash := env.fdp tx.hash, index := 0 }

def markerIdsOf (env : Env) (txs : List Tx) : List CoinID :=
  (txs.filter fun tx => tx.kind = .faucet && !env.isGrandfathered tx.hash).map
    fun tx => { txhash := env.fdp tx.hash, index := 0 }

theorem mem_markerIdsOf {env : Env} {txs : List Tx} {k : CoinID} :
    k ∈ markerIdsOf env txs ↔ ∃ tx ∈ txs, insertsMarker env tx = true ∧ k = markerOf env tx := by
  simp only [markerIdsOf, List.mem_map, List.mem_filter, insertsMarker, markerOf]
  constructor
  · rintro ⟨tx, ⟨h1, h2⟩, rfl⟩; exact ⟨tx, h1, h2, rfl⟩
  · rintro ⟨tx, h1, h2, rfl⟩; exact ⟨tx, ⟨h1, h2⟩, rfl⟩

theorem getCoin_faucetStep {env : Env} {st st1 : State} {tx : Tx}
    (h : (if tx.kind = .faucet then handleFaucetTx env st tx else .ok st) = .ok st1) (k : CoinID) :
    st1.coins.getCoin k =
      if insertsMarker env tx = true ∧ k = markerOf env tx then some faucetMarker else st.coins.getCoin k := by
  by_cases hk : tx.kind = .faucet
  · rw [if_pos hk] at h
    simp only [handleFaucetTx] at h
    split at h
    · cases h
    · split at h
      · cases h
      · split at h
        · rename_i hb
          cases h
          simp only [CoinMap.getCoin_insertCoin, insertsMarker, markerOf, hk, hb, faucetMarker]
          simp
        · rename_i hb
          cases h
          simp [insertsMarker, hb]
  · rw [if_neg hk] at h
    cases h
    simp [insertsMarker, hk]

theorem getCoin_nextStep {env : Env} {t : Bool} {st st' : State} {tx : Tx}
    (h : nextStep env t st tx = .ok st') (k : CoinID) :
    st'.coins.getCoin k =
      if k ∈ tx.inputs then none
      else if insertsMarker env tx = true ∧ k = markerOf env tx then some faucetMarker
      else st.coins.getCoin k := by
  unfold nextStep at h
  split at h
  · cases h
  simp only [Outcome.bind_eq_ok] at h
  obtain ⟨st1, h1, coins2, h2, minFee, -, h4⟩ := h
  split at h4
  · cases h4
  · cases h4
    simp only
    rw [CoinMap.getCoin_removeCoins t tx.inputs _ _ h2 k, getCoin_faucetStep h1 k]

theorem getCoin_nextFold (env : Env) (t : Bool) (txs : List Tx) :
    ∀ (st st' : State), Outcome.foldlM' (nextStep env t) st txs = .ok st' →
      (∀ m ∈ markerIdsOf env txs, m ∉ txs.flatMap (·.inputs)) →
      ∀ k, st'.coins.getCoin k =
        if k ∈ txs.flatMap (·.inputs) then none
        else if k ∈ markerIdsOf env txs then some faucetMarker
        else st.coins.getCoin k := by
  induction txs with
  | nil =>
    intro st st' h _ k
    rw [Outcome.foldlM'_nil_ok] at h; subst h
    simp [markerIdsOf]
  | cons tx rest ih =>
    intro st st' h hm k
    rw [Outcome.foldlM'_cons_ok] at h
    obtain ⟨st1, h1, h2⟩ := h
    have hm' : ∀ m ∈ markerIdsOf env rest, m ∉ rest.flatMap (·.inputs) := by
      intro m hmm hin
      have : m ∈ markerIdsOf env (tx :: rest) := by
        rw [mem_markerIdsOf] at hmm ⊢
        obtain ⟨a, ha, hb⟩ := hmm
        exact ⟨a, List.mem_cons_of_mem _ ha, hb⟩
      exact hm m this (by simp [hin])
    rw [ih st1 st' h2 hm' k, getCoin_nextStep h1 k]
    have hmem : k ∈ markerIdsOf env (tx :: rest) ↔
        (insertsMarker env tx = true ∧ k = markerOf env tx) ∨ k ∈ markerIdsOf env rest := by
      simp only [mem_markerIdsOf, List.mem_cons, exists_eq_or_imp]
    have hin : k ∈ (tx :: rest).flatMap (·.inputs) ↔ k ∈ tx.inputs ∨ k ∈ rest.flatMap (·.inputs) := by
      simp
    by_cases c1 : k ∈ rest.flatMap (·.inputs)
    · rw [if_pos c1, if_pos (hin.mpr (Or.inr c1))]
    · by_cases c2 : k ∈ markerIdsOf env rest
      · have c3 : k ∉ tx.inputs := by
          intro hc
          exact hm k (hmem.mpr (Or.inr c2)) (hin.mpr (Or.inl hc))
        have c5 : k ∉ (tx :: rest).flatMap (·.inputs) := by
          rw [hin]; exact fun h => h.elim c3 c1
        rw [if_neg c1, if_pos c2, if_neg c5, if_pos (hmem.mpr (Or.inr c2))]
      · rw [if_neg c1, if_neg c2]
        by_cases c3 : k ∈ tx.inputs
        · rw [if_pos c3, if_pos (hin.mpr (Or.inl c3))]
        · have c5 : k ∉ (tx :: rest).flatMap (·.inputs) := by
            rw [hin]; exact fun h => h.elim c3 c1
          rw [if_neg c3, if_neg c5]
          by_cases c4 : insertsMarker env tx = true ∧ k = markerOf env tx
          · rw [if_pos c4, if_pos (hmem.mpr (Or.inl c4))]
          · have c6 : k ∉ markerIdsOf env (tx :: rest) := by
              rw [hmem]; exact fun h => h.elim c4 c2
            rw [if_neg c4, if_neg c6]

/-! ### `applyBatch` -/

theorem applyBatch_ok {env : Env} {s s' : State} {txs : List Tx} {fb : Header}
    (h : applyBatch env s txs fb = .ok s') :
    ∃ rel newStakes next, loadRelevantCoins s txs = .ok rel ∧ loadStakeInfo s txs = .ok newStakes ∧
      (∀ tx ∈ txs, checkTxValidity env s (lastHeaderOf s fb) tx rel newStakes = .ok ()) ∧
      createNextState env s txs rel s.tip906 = .ok next ∧ s'.coins = next.coins := by
  simp only [applyBatch, Outcome.bind_eq_ok] at h
  obtain ⟨rel, h1, newStakes, h2, u, h3, newSpeed, -, next, h5, h6⟩ := h
  cases u
  rw [Outcome.forM'_eq_ok] at h3
  cases h6
  exact ⟨rel, newStakes, next, h1, h2, h3, h5, rfl⟩

/-- the exact coin transition of an accepted batch -/
theorem applyBatch_getCoin {env : Env} {s s' : State} {txs : List Tx} {fb : Header}
    (h : applyBatch env s txs fb = .ok s')
    (hm1 : ∀ m ∈ markerIdsOf env txs, m ∉ txs.flatMap (·.inputs))
    (hm2 : ∀ m ∈ markerIdsOf env txs, (createdOf s.height txs).get m = none) (id : CoinID) :
    s'.coins.getCoin id =
      if id ∈ txs.flatMap (·.inputs) then none
      else match (createdOf s.height txs).get id with
        | some c => some c
        | none => if id ∈ markerIdsOf env txs then some faucetMarker else s.coins.getCoin id := by
  obtain ⟨rel, newStakes, next, h1, -, -, h4, h5⟩ := applyBatch_ok h
  obtain ⟨-, -, -, r1, r2⟩ := loadRelevantCoins_ok h1
  rw [createNextState_eq] at h4
  rw [h5, getCoin_nextFold env _ txs _ _ h4 hm1 id]
  by_cases c1 : id ∈ txs.flatMap (·.inputs)
  · rw [if_pos c1, if_pos c1]
  · rw [if_neg c1, if_neg c1]
    simp only
    rw [getCoin_insFold]
    cases hc : (createdOf s.height txs).get id with
    | some c =>
      have c2 : id ∉ markerIdsOf env txs := by
        intro hmm; have := hm2 id hmm; rw [hc] at this; cases this
      rw [if_neg c2, if_pos (createdOf_key_mem_outputIds hc), r1 id c hc]
    | none =>
      by_cases c2 : id ∈ markerIdsOf env txs
      · rw [if_pos c2]; simp only [if_pos c2]
      · rw [if_neg c2]; simp only [if_neg c2]
        by_cases c3 : id ∈ outputIds txs
        · rw [if_pos c3]
          cases hr : rel.get id with
          | none => rfl
          | some c => exact (r2 id c hc hr).symm
        · rw [if_neg c3]

theorem diskStep_cases (created : Relevant) (coins : CoinMap) (acc : Relevant) (a : CoinID) :
    (∃ acc', diskStep created coins acc a = .ok acc') ∨
      diskStep created coins acc a = .reject .nonexistentCoin := by
  simp only [diskStep]
  split
  · exact Or.inl ⟨_, rfl⟩
  · split
    · exact Or.inl ⟨_, rfl⟩
    · exact Or.inr rfl

theorem diskFold_missing (created : Relevant) (coins : CoinMap) (id : CoinID)
    (h1 : coins.getCoin id = none) (h2 : created.get id = none) (l : List CoinID) (hid : id ∈ l) :
    ∀ acc : Relevant, Outcome.foldlM' (diskStep created coins) acc l = .reject .nonexistentCoin := by
  induction l with
  | nil => cases hid
  | cons a rest ih =>
    intro acc
    simp only [Outcome.foldlM']
    by_cases ha : a = id
    · subst ha
      simp [diskStep, AList.contains, h1, h2]
    · have hid' : id ∈ rest := by
        rcases List.mem_cons.mp hid with h | h
        · exact absurd h.symm ha
        · exact h
      rcases diskStep_cases created coins acc a with ⟨acc', h⟩ | h
      · rw [h]; exact ih hid' acc'
      · rw [h]

theorem applyBatch_missing {env : Env} {s : State} {txs : List Tx} {fb : Header} {id : CoinID}
    (hid : id ∈ txs.flatMap (·.inputs)) (h1 : s.coins.getCoin id = none)
    (h2 : (createdOf s.height txs).get id = none) :
    applyBatch env s txs fb = .reject .malformedTx ∨ applyBatch env s txs fb = .reject .nonexistentCoin := by
  simp only [applyBatch, loadRelevantCoins_eq]
  split
  · exact Or.inl rfl
  · rw [diskFold_missing _ _ id h1 h2 _ hid]
    exact Or.inr rfl

end Mel
