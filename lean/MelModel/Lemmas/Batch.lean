/- helper lemmas about applyBatch (C02, C03, C05, C13, C19) -/
import MelModel.ApplyTx
import MelModel.Lemmas.Counts
namespace Mel
end Mel
