/- helper lemmas for C16 -/
import MelModel.Seal
import MelModel.Lemmas.Counts
import MelModel.Lemmas.FeeMult
namespace Mel
open Mel.Gen

/-! ### the builtin pool keys are pairwise distinct -/

theorem poolMelSym_ne_poolMelErg : poolMelSym ≠ poolMelErg := by decide
theorem poolMelSym_ne_poolErgSym : poolMelSym ≠ poolErgSym := by decide
theorem poolMelErg_ne_poolErgSym : poolMelErg ≠ poolErgSym := by decide

/-! ### `set` when missing or without liquidity (the step of `create_builtins` since the F23 fix) -/

/-- the pool `create_builtins` leaves under a builtin key, given what was there -/
def fixedPool : Option PoolState → PoolState
  | none => builtinDefault
  | some p => if p.liqs = 0 then builtinDefault else p

/-- the step `create_builtins` applies for each builtin key -/
def fixBuiltin (m : AList PoolKey PoolState) (k : PoolKey) : AList PoolKey PoolState :=
  if builtinMissing m k then m.set k builtinDefault else m

theorem builtinMissing_none {m : AList PoolKey PoolState} {k : PoolKey} (h : m.get k = none) :
    builtinMissing m k = true := by simp [builtinMissing, h]

theorem builtinMissing_some {m : AList PoolKey PoolState} {k : PoolKey} {p : PoolState} (h : m.get k = some p) :
    builtinMissing m k = decide (p.liqs = 0) := by simp [builtinMissing, h]

/-- a builtin pool is recreated only when it is absent or records no liquidity -/
theorem builtinMissing_true {m : AList PoolKey PoolState} {k : PoolKey} (h : builtinMissing m k = true) :
    ((m.get k).map (·.liqs)).getD 0 = 0 := by
  unfold builtinMissing at h
  cases e : m.get k with
  | none => rfl
  | some p => rw [e] at h; simpa using h

theorem get_fixBuiltin_self (m : AList PoolKey PoolState) (k : PoolKey) :
    (fixBuiltin m k).get k = some (fixedPool (m.get k)) := by
  unfold fixBuiltin
  cases h : m.get k with
  | none => rw [builtinMissing_none h, if_pos rfl, AList.get_set_self]; rfl
  | some q =>
    rw [builtinMissing_some h]
    by_cases hq : q.liqs = 0
    · rw [if_pos (by simpa using hq), AList.get_set_self]; simp [fixedPool, hq]
    · rw [if_neg (by simpa using hq), h]; simp [fixedPool, hq]

theorem get_fixBuiltin_ne (m : AList PoolKey PoolState) {k k' : PoolKey} (hne : k' ≠ k) :
    (fixBuiltin m k).get k' = m.get k' := by
  unfold fixBuiltin
  split
  · exact AList.get_set_ne m _ hne
  · rfl

theorem createBuiltins_pools (s : State) : (createBuiltins s).pools =
    if s.tip902 then fixBuiltin (fixBuiltin (fixBuiltin s.pools poolMelSym) poolMelErg) poolErgSym
    else fixBuiltin (fixBuiltin s.pools poolMelSym) poolMelErg := by
  unfold createBuiltins fixBuiltin
  cases s.tip902 <;> simp

/-- what `create_builtins` leaves under each builtin key (ERG/SYM only once TIP-902 is active): the pool that
    was there when it records liquidity, the default pool otherwise -/
theorem createBuiltins_get_fixed (s : State) (k : PoolKey)
    (hk : k = poolMelSym ∨ k = poolMelErg ∨ (s.tip902 = true ∧ k = poolErgSym)) :
    (createBuiltins s).pools.get k = some (fixedPool (s.pools.get k)) := by
  have h12 := poolMelSym_ne_poolMelErg
  have h13 := poolMelSym_ne_poolErgSym
  have h23 := poolMelErg_ne_poolErgSym
  rw [createBuiltins_pools]
  rcases hk with rfl | rfl | ⟨ht, rfl⟩
  · split
    · rw [get_fixBuiltin_ne _ h13, get_fixBuiltin_ne _ h12, get_fixBuiltin_self]
    · rw [get_fixBuiltin_ne _ h12, get_fixBuiltin_self]
  · split
    · rw [get_fixBuiltin_ne _ h23, get_fixBuiltin_self, get_fixBuiltin_ne _ h12.symm]
    · rw [get_fixBuiltin_self, get_fixBuiltin_ne _ h12.symm]
  · rw [if_pos ht, get_fixBuiltin_self, get_fixBuiltin_ne _ h23.symm, get_fixBuiltin_ne _ h13.symm]

theorem fixBuiltin_keys_nodup {m : AList PoolKey PoolState} (k : PoolKey) (h : (AList.keys m).Nodup) :
    (AList.keys (fixBuiltin m k)).Nodup := by
  unfold fixBuiltin
  split
  · exact AList.keys_nodup_set _ _ h
  · exact h

theorem createBuiltins_keys_nodup (s : State) (h : (AList.keys s.pools).Nodup) :
    (AList.keys (createBuiltins s).pools).Nodup := by
  rw [createBuiltins_pools]
  split
  · exact fixBuiltin_keys_nodup _ (fixBuiltin_keys_nodup _ (fixBuiltin_keys_nodup _ h))
  · exact fixBuiltin_keys_nodup _ (fixBuiltin_keys_nodup _ h)

theorem fixedPool_liqs_ne (v : Option PoolState) : (fixedPool v).liqs ≠ 0 := by
  unfold fixedPool
  split
  · decide
  · split
    · decide
    · assumption

/-! ### pools are never deleted -/

def PoolsGrow (s s' : State) : Prop := ∀ k, (s.pools.get k).isSome → (s'.pools.get k).isSome

theorem PoolsGrow.refl (s : State) : PoolsGrow s s := fun _ h => h

theorem PoolsGrow.trans {a b c : State} (h1 : PoolsGrow a b) (h2 : PoolsGrow b c) : PoolsGrow a c :=
  fun k h => h2 k (h1 k h)

theorem PoolsGrow.of_set {s s' : State} (k : PoolKey) (p : PoolState)
    (h : s'.pools = s.pools.set k p) : PoolsGrow s s' := by
  intro k' hk'
  rw [h]
  by_cases hkk : k' = k
  · subst hkk; rw [AList.get_set_self]; rfl
  · rw [AList.get_set_ne _ _ hkk]; exact hk'

theorem PoolsGrow.of_eq {s s' : State} (h : s'.pools = s.pools) : PoolsGrow s s' := by
  intro k hk; rw [h]; exact hk

theorem processSwapsForPool_grow (k : PoolKey) (s : State) (swaps : List Tx) (s' : State)
    (h : processSwapsForPool k s swaps = .ok s') : PoolsGrow s s' := by
  unfold processSwapsForPool at h
  split at h
  · cases h
  · simp only at h
    split at h
    · cases h
    · cases h
    · obtain ⟨coins, _, h2⟩ := Outcome.bind_eq_ok h
      cases h2; exact PoolsGrow.of_set _ _ rfl

theorem processSwaps_grow (s s' : State) (h : processSwaps s = .ok s') : PoolsGrow s s' := by
  unfold processSwaps at h
  exact Outcome.foldlM'_inv (PoolsGrow s) _
    (fun b a b' hb hf => hb.trans (processSwapsForPool_grow _ _ _ _ hf)) _ _ _ (PoolsGrow.refl s) h

theorem processDepositsForPool_grow (env : Env) (k : PoolKey) (s : State) (deps : List Tx) (s' : State)
    (h : processDepositsForPool env k s deps = .ok s') : PoolsGrow s s' := by
  unfold processDepositsForPool at h
  simp only at h
  split at h
  · cases h
  · cases h
  · split at h
    · cases h; exact PoolsGrow.refl s
    · obtain ⟨coins, _, h2⟩ := Outcome.bind_eq_ok h
      cases h2; exact PoolsGrow.of_set _ _ rfl

theorem processDeposits_grow (env : Env) (s s' : State) (h : processDeposits env s = .ok s') :
    PoolsGrow s s' := by
  unfold processDeposits at h
  exact Outcome.foldlM'_inv (PoolsGrow s) _
    (fun b a b' hb hf => hb.trans (processDepositsForPool_grow _ _ _ _ _ hf)) _ _ _ (PoolsGrow.refl s) h

theorem processWithdrawalsForPool_grow (k : PoolKey) (s : State) (reqs : List Tx) (s' : State)
    (h : processWithdrawalsForPool k s reqs = .ok s') : PoolsGrow s s' := by
  unfold processWithdrawalsForPool at h
  simp only at h
  split at h
  · cases h
  · split at h
    · cases h; exact PoolsGrow.refl _
    · split at h
      · cases h
      · cases h
      · obtain ⟨coins, _, h2⟩ := Outcome.bind_eq_ok h
        cases h2; exact PoolsGrow.of_set _ _ rfl

theorem processWithdrawals_grow (env : Env) (s s' : State) (h : processWithdrawals env s = .ok s') :
    PoolsGrow s s' := by
  unfold processWithdrawals at h
  exact Outcome.foldlM'_inv (PoolsGrow s) _
    (fun b a b' hb hf => hb.trans (processWithdrawalsForPool_grow _ _ _ _ hf)) _ _ _ (PoolsGrow.refl s) h

theorem processPegging_grow (s s' : State) (h : processPegging s = .ok s') : PoolsGrow s s' := by
  unfold processPegging at h
  simp only at h
  obtain ⟨⟨a, b⟩, _, h⟩ := Outcome.bind_eq_ok h
  simp only at h
  obtain ⟨sm, _, h⟩ := Outcome.bind_eq_ok h
  split at h
  · cases h
  · obtain ⟨sm1, _, h⟩ := Outcome.bind_eq_ok h
    obtain ⟨sm2, _, h⟩ := Outcome.bind_eq_ok h
    cases h; exact PoolsGrow.of_set _ _ rfl

theorem fixBuiltin_get_isSome (m : AList PoolKey PoolState) (k k' : PoolKey) (h : (m.get k').isSome) :
    ((fixBuiltin m k).get k').isSome := by
  by_cases hkk : k' = k
  · subst hkk; rw [get_fixBuiltin_self]; rfl
  · rw [get_fixBuiltin_ne _ hkk]; exact h

/-- `create_builtins` keeps the pools that exist -/
theorem createBuiltins_grow (s : State) : PoolsGrow s (createBuiltins s) := by
  intro k hk
  rw [createBuiltins_pools]
  split
  · exact fixBuiltin_get_isSome _ _ _ (fixBuiltin_get_isSome _ _ _ (fixBuiltin_get_isSome _ _ _ hk))
  · exact fixBuiltin_get_isSome _ _ _ (fixBuiltin_get_isSome _ _ _ hk)

/-- every Melmint phase after `create_builtins` keeps the pools that exist -/
theorem presealMelmint_grow (env : Env) (s s' : State) (h : presealMelmint env s = .ok s') :
    PoolsGrow (createBuiltins s) s' := by
  unfold presealMelmint at h
  simp only at h
  split at h
  · cases h
  · obtain ⟨s1, h1, h⟩ := Outcome.bind_eq_ok h
    obtain ⟨s2, h2, h⟩ := Outcome.bind_eq_ok h
    obtain ⟨s3, h3, h⟩ := Outcome.bind_eq_ok h
    exact (((processSwaps_grow _ _ h1).trans (processDeposits_grow _ _ _ h2)).trans
      (processWithdrawals_grow _ _ _ h3)).trans ((createBuiltins_grow s3).trans (processPegging_grow _ _ h))

theorem applyTip909_grow (s s' : State) (h : applyTip909 s = .ok s') : PoolsGrow s s' := by
  unfold applyTip909 at h
  simp only at h
  split at h
  · cases h
  · split at h
    · cases h
    · obtain ⟨⟨sm', mel, x⟩, _, h⟩ := Outcome.bind_eq_ok h
      simp only at h
      split at h
      · cases h
      · split at h
        · cases h
        · obtain ⟨⟨es', y, z⟩, _, h⟩ := Outcome.bind_eq_ok h
          cases h
          exact (PoolsGrow.of_set (s' := { s with pools := s.pools.set poolMelSym sm' }) _ _ rfl).trans
            (PoolsGrow.of_set _ _ rfl)

theorem applyProposerAction_grow (env : Env) (s : State) (a : ProposerAction) (s' : State)
    (h : applyProposerAction env s a = .ok s') : PoolsGrow s s' := by
  unfold applyProposerAction collectProposerFee at h
  simp only at h
  split at h
  · cases h
  · cases h; exact PoolsGrow.of_eq rfl

/-- sealing keeps every pool `create_builtins` produced -/
theorem sealState_grow (env : Env) (s : State) (action : Option ProposerAction) (ss : Sealed)
    (h : sealState env s action = .ok ss) : PoolsGrow (createBuiltins s) ss.st := by
  unfold sealState at h
  obtain ⟨s1, h1, h⟩ := Outcome.bind_eq_ok h
  split at h
  · cases h
  · obtain ⟨s2, h2, h⟩ := Outcome.bind_eq_ok h
    have h12 : PoolsGrow s1 s2 := by
      split at h2
      · exact applyTip909_grow _ _ h2
      · cases h2; exact PoolsGrow.refl _
    have g2 := (presealMelmint_grow _ _ _ h1).trans h12
    split at h
    · cases h; exact g2
    · obtain ⟨s3, h3, h⟩ := Outcome.bind_eq_ok h
      cases h; exact g2.trans (applyProposerAction_grow _ _ _ _ h3)

/-! ### `swap_many` with nothing added on the left keeps reserves -/

theorem swapMany_right_reserves (p p' : PoolState) (r lw rw : Nat) (hr : r ≤ U128_MAX)
    (h : p.swapMany 0 r = .ok (p', lw, rw)) : 0 < p'.lefts ∧ 0 < p'.rights := by
  unfold PoolState.swapMany at h
  simp only at h
  split at h
  · cases h
  · split at h
    · cases h
    · split at h
      · cases h
      · split at h
        · cases h
        · split at h
          · cases h
          · rename_i hR hL hlw hrw hR'
            cases h
            simp only
            refine ⟨?_, by omega⟩
            -- lw ≤ r * L * 995 / (R * 1000) < L
            generalize hLd : satAdd128 p.lefts 0 = L at *
            generalize hRd : satAdd128 p.rights r = R at *
            have hrR : r ≤ R := by rw [← hRd]; unfold satAdd128; omega
            have hLpos : 0 < L := Nat.pos_of_ne_zero hL
            have hRpos : 0 < R := Nat.pos_of_ne_zero hR
            have hq : r * L * 995 / (R * 1000) < L := by
              apply Nat.div_lt_of_lt_mul
              have h1 : r * L ≤ R * L := Nat.mul_le_mul_right L hrR
              have h2 : 0 < R * L := Nat.mul_pos hRpos hLpos
              calc r * L * 995 ≤ R * L * 995 := Nat.mul_le_mul_right 995 h1
                _ < R * L * 1000 := by omega
                _ = R * 1000 * L := by rw [Nat.mul_right_comm]
            have : satU128 (r * L * 995 / (R * 1000)) ≤ r * L * 995 / (R * 1000) := by
              unfold satU128; omega
            omega

/-! ### pro-rata shares add up to at most the total -/

theorem shares_sum_mul_le (T S U : Nat) (ws : List Nat) :
    (ws.map fun w => min (T * w / S) U).sum * S ≤ T * ws.sum := by
  induction ws with
  | nil => simp
  | cons w ws ih =>
    simp only [List.map_cons, List.sum_cons, Nat.add_mul, Nat.mul_add]
    have h1 : min (T * w / S) U * S ≤ T * w :=
      Nat.le_trans (Nat.mul_le_mul_right S (Nat.min_le_left _ _)) (Nat.div_mul_le_self _ _)
    omega

/-! ### two values of `Nat.sqrt` (its iteration is irreducible, so `decide` cannot evaluate it) -/

theorem sqrt_one : Nat.sqrt 1 = 1 := by simp [Nat.sqrt]

theorem sqrt_two : Nat.sqrt 2 = 1 := by
  unfold Nat.sqrt
  rw [if_neg (by decide)]
  have h : (1 <<< (Nat.log2 2 / 2 + 1)) = 2 := by decide
  rw [h]
  unfold Nat.sqrt.iter
  simp
  unfold Nat.sqrt.iter
  simp

end Mel
