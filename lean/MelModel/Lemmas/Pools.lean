/- helper lemmas for C16 -/
import MelModel.Seal
import MelModel.Lemmas.Counts
import MelModel.Lemmas.FeeMult
namespace Mel
end Mel
