/-
  Helper lemmas for Props/C03Seq.lean.
-/
import MelModel.ApplyTx
import MelModel.Lemmas.Perm
namespace Mel
namespace SeqL
open Mel.Gen Mel.BatchL Mel.C3

/-! ### generic facts -/

theorem foldlM'_congr {α β} {f g : β → α → Outcome β} : ∀ (l : List α) (b : β),
    (∀ b, ∀ a ∈ l, f b a = g b a) → Outcome.foldlM' f b l = Outcome.foldlM' g b l := by
  intro l
  induction l with
  | nil => intro b _; rfl
  | cons a rest ih =>
    intro b h
    simp only [Outcome.foldlM']
    rw [h b a List.mem_cons_self]
    cases g b a with
    | ok b' => exact ih b' (fun b x hx => h b x (List.mem_cons_of_mem _ hx))
    | reject e => rfl
    | crash c => rfl

theorem get_foldl_extend_or {α κ ν : Type} [DecidableEq κ] (F : α → List (κ × ν)) (k : κ) :
    ∀ (l : List α) (acc : AList κ ν),
      AList.get (l.foldl (fun acc a => AList.extend acc (F a)) acc) k =
        (AList.get (l.foldl (fun acc a => AList.extend acc (F a)) []) k).or (AList.get acc k) := by
  intro l
  induction l with
  | nil => intro acc; simp [AList.get]
  | cons a rest ih =>
    intro acc
    rw [List.foldl_cons, List.foldl_cons, ih (AList.extend acc (F a)), ih (AList.extend [] (F a)),
      AList.get_extend, AList.get_extend, Option.or_assoc]
    congr 1
    cases AList.get (F a).reverse k <;> simp [AList.get]

theorem mem_zipIdx_fst {α} {l : List α} {e : α × Nat} (h : e ∈ l.zipIdx) : e.1 ∈ l := by
  obtain ⟨x, i⟩ := e
  rw [List.mem_zipIdx_iff_getElem?] at h
  exact List.mem_of_getElem? h

/-! ### congruences of the per-transaction checks -/

theorem checkTx_congr (env : Env) (s s' : State) (lh : Header) (tx : Tx) {rel rel' : Relevant}
    {ns ns' : AList Hash StakeDoc}
    (h1 : ∀ id ∈ tx.inputs, rel'.get id = rel.get id)
    (h2 : ∀ id ∈ tx.inputs, (ns'.contains id.txhash || (s'.stakes.getStake id.txhash).isSome) =
      (ns.contains id.txhash || (s.stakes.getStake id.txhash).isSome))
    (h3 : legacyStakeLock s' = legacyStakeLock s) :
    checkTxValidity env s' lh tx rel' ns' = checkTxValidity env s lh tx rel ns := by
  simp only [checkTxValidity]
  congr 1
  apply foldlM'_congr
  intro acc e he
  have hm := mem_zipIdx_fst he
  simp only [h1 _ hm, h2 _ hm, h3]

theorem doscmint_congr (env : Env) (s s' : State) (tx : Tx) {rel rel' : Relevant}
    (hr : ∀ id ∈ tx.inputs, rel'.get id = rel.get id) (hh : s'.height = s.height)
    (hn : s'.network = s.network) (hist : s'.history = s.history) :
    validateDoscmint env s' rel' tx = validateDoscmint env s rel tx := by
  unfold validateDoscmint
  cases hi : tx.inputs with
  | nil => rfl
  | cons c cs =>
    have := hr c (by simp [hi])
    simp only [this, hh, hn, hist]

theorem stakeRes_congr {s s' : State} (hn : s'.network = s.network) (hh : s'.height = s.height) (tx : Tx) :
    stakeRes s' tx = stakeRes s tx := by
  have e1 : legacyStakeReg s' = legacyStakeReg s := by simp only [legacyStakeReg, hn, hh]
  have e2 : s'.epoch = s.epoch := by simp only [State.epoch, hh]
  unfold stakeRes
  rw [e1, e2]

theorem legacyStakeLock_congr {s s' : State} (hn : s'.network = s.network) (hh : s'.height = s.height) :
    legacyStakeLock s' = legacyStakeLock s := by
  simp only [legacyStakeLock, hn, hh]

/-! ### the new-stakes map -/

/-- the map `loadStakeInfo` returns -/
def stakeMap (s : State) (txs : List Tx) : AList Hash StakeDoc :=
  txs.foldl (fun b a => AList.extend b (stakeEntries (valOf (stakeRes s a)) a)) []

theorem loadStake_iff {s : State} {txs : List Tx} {ns : AList Hash StakeDoc} :
    loadStakeInfo s txs = .ok ns ↔ (∀ a ∈ txs, ∃ v, stakeRes s a = .ok v) ∧ ns = stakeMap s txs := by
  rw [loadStakeInfo_eq', foldlM'_pure]
  rfl

theorem stakeMap_congr {s s' : State} (hn : s'.network = s.network) (hh : s'.height = s.height)
    (txs : List Tx) : stakeMap s' txs = stakeMap s txs := by
  simp only [stakeMap, stakeRes_congr hn hh]

theorem stakeMap_cons (s : State) (t : Tx) (rest : List Tx) (k : Hash) :
    (stakeMap s (t :: rest)).get k = ((stakeMap s rest).get k).or ((stakeMap s [t]).get k) := by
  unfold stakeMap
  rw [List.foldl_cons]
  exact get_foldl_extend_or (fun a => stakeEntries (valOf (stakeRes s a)) a) k rest _

theorem stakeMap_key {s : State} {txs : List Tx} {k : Hash} {v : StakeDoc}
    (h : (stakeMap s txs).get k = some v) : ∃ a ∈ txs, k = a.hash := by
  rcases get_foldl_extend_some (fun a => stakeEntries (valOf (stakeRes s a)) a) txs [] k v h with h1 | ⟨a, ha, hm⟩
  · simp [AList.get] at h1
  · refine ⟨a, ha, ?_⟩
    cases ho : valOf (stakeRes s a) with
    | none => simp [ho, stakeEntries] at hm
    | some d =>
      simp only [ho, stakeEntries, List.mem_cons, Prod.mk.injEq, List.not_mem_nil, or_false] at hm
      exact hm.1

theorem createdOf_cons (h : Nat) (t : Tx) (rest : List Tx) (k : CoinID) :
    (createdOf h (t :: rest)).get k = ((createdOf h rest).get k).or ((createdOf h [t]).get k) := by
  unfold createdOf
  rw [List.foldl_cons]
  exact get_foldl_extend_or (fun tx => outputCoinsFromTx tx h) k rest _

theorem createdOf_none_of_hash {h : Nat} {txs : List Tx} {k : CoinID}
    (hk : ∀ u ∈ txs, k.txhash ≠ u.hash) : (createdOf h txs).get k = none := by
  cases hc : (createdOf h txs).get k with
  | none => rfl
  | some c =>
    obtain ⟨tx, htx, he⟩ := createdOf_txhash hc
    exact absurd he (hk tx htx)

/-! ### standing assumptions (as `C3.Pre`, but the count invariant is only asked for once TIP-906 is active,
    which is all the proofs use — and what one-at-a-time application preserves) -/

structure SPre (env : Env) (s : State) (txs : List Tx) : Prop where
  hashes : (txs.map (·.hash)).Nodup
  markers : ∀ t ∈ txs, t.kind = .faucet → env.isGrandfathered t.hash = false →
              (∀ u ∈ txs, (⟨env.fdp t.hash, 0⟩ : CoinID) ∉ u.inputs ∧ env.fdp t.hash ≠ u.hash) ∧
              (∀ u ∈ txs, u.kind = .faucet → env.fdp u.hash = env.fdp t.hash → u = t)
  gfMarkers : ∀ t ∈ txs, t.kind = .faucet → env.isGrandfathered t.hash = true →
              ∀ u ∈ txs, (⟨env.fdp t.hash, 0⟩ : CoinID) ∉ u.inputs
  fresh : ∀ t ∈ txs, ∀ i, s.coins.getCoin ⟨t.hash, i⟩ = none
  counts : s.tip906 = true → CountsOk s.coins
  sorted : s.txs.Pairwise TxLt

theorem SPre.ofPre {env : Env} {s : State} {txs : List Tx} (h : C3.Pre env s txs) : SPre env s txs :=
  ⟨h.hashes, h.markers, h.gfMarkers, h.fresh, fun _ => h.counts, h.sorted⟩

theorem SPre.sub {env : Env} {s : State} {l l' : List Tx} (h : SPre env s l) (hsub : ∀ x ∈ l', x ∈ l)
    (hnd : (l'.map (·.hash)).Nodup) : SPre env s l' where
  hashes := hnd
  markers := fun t ht hk hb =>
    ⟨fun u hu => (h.markers t (hsub t ht) hk hb).1 u (hsub u hu),
     fun u hu => (h.markers t (hsub t ht) hk hb).2 u (hsub u hu)⟩
  gfMarkers := fun t ht hk hb u hu => h.gfMarkers t (hsub t ht) hk hb u (hsub u hu)
  fresh := fun t ht => h.fresh t (hsub t ht)
  counts := h.counts
  sorted := h.sorted

theorem SPre.head {env : Env} {s : State} {t : Tx} {rest : List Tx} (h : SPre env s (t :: rest)) :
    SPre env s [t] :=
  h.sub (fun x hx => by simp at hx; simp [hx]) (by simp)

theorem SPre.tail {env : Env} {s : State} {t : Tx} {rest : List Tx} (h : SPre env s (t :: rest)) :
    SPre env s rest :=
  h.sub (fun x hx => List.mem_cons_of_mem _ hx) (by
    have := h.hashes
    simp only [List.map_cons, List.nodup_cons] at this
    exact this.2)

theorem SPre.notInp {env : Env} {s : State} {txs : List Tx} (h : SPre env s txs) :
    ∀ f ∈ txs, f.kind = .faucet → ∀ u ∈ txs, markerOf env f ∉ u.inputs := by
  intro f hf hk u hu
  by_cases hb : env.isGrandfathered f.hash = true
  · exact h.gfMarkers f hf hk hb u hu
  · exact ((h.markers f hf hk (by simpa using hb)).1 u hu).1

theorem SPre.dist {env : Env} {s : State} {txs : List Tx} (h : SPre env s txs) :
    ∀ a ∈ txs, ∀ f ∈ txs, insertsMarker env a = true → f.kind = .faucet →
      markerOf env a = markerOf env f → f = a := by
  intro a ha f hf hm hk he
  simp only [insertsMarker, Bool.and_eq_true, decide_eq_true_eq, Bool.not_eq_true'] at hm
  simp only [markerOf, CoinID.mk.injEq, and_true] at he
  exact (h.markers a ha hm.1 hm.2).2 f hf hk he.symm

theorem SPre.hm1 {env : Env} {s : State} {txs : List Tx} (h : SPre env s txs) :
    ∀ m ∈ markerIdsOf env txs, m ∉ txs.flatMap (·.inputs) := by
  intro m hm hin
  obtain ⟨tx, htx, hins, rfl⟩ := mem_markerIdsOf.mp hm
  obtain ⟨u, hu, hmu⟩ := List.mem_flatMap.mp hin
  exact h.notInp tx htx (insertsMarker_faucet hins) u hu hmu

/-- the marker of a non-grandfathered faucet transaction is not a coin the batch creates -/
theorem SPre.hm2 {env : Env} {s : State} {txs : List Tx} (h : SPre env s txs) (ht : Nat) :
    ∀ m ∈ markerIdsOf env txs, (createdOf ht txs).get m = none := by
  intro m hm
  obtain ⟨tx, htx, hins, rfl⟩ := mem_markerIdsOf.mp hm
  simp only [insertsMarker, Bool.and_eq_true, decide_eq_true_eq, Bool.not_eq_true'] at hins
  exact createdOf_none_of_hash (fun u hu => ((h.markers tx htx hins.1 hins.2).1 u hu).2)

/-! ### the second pass -/

theorem start_none_iff {s : State} {txs : List Tx} {rel : Relevant} (t : Bool)
    (h1 : loadRelevantCoins s txs = .ok rel) (k : CoinID) :
    ((outputIds txs).foldl (insStep rel t) s.coins).getCoin k = none ↔
      s.coins.getCoin k = none ∧ (createdOf s.height txs).get k = none := by
  rw [getCoin_insFold, loadRel_get h1]
  unfold relSpec
  cases hc : (createdOf s.height txs).get k with
  | some c =>
    have := createdOf_key_mem_outputIds hc
    simp [this]
  | none =>
    by_cases h2 : k ∈ outputIds txs <;> by_cases h3 : k ∈ txs.flatMap (·.inputs) <;>
      cases h4 : s.coins.getCoin k <;> simp [h2, h3]

/-- what the faucet checks of the second pass need: the pseudo-coin of every faucet transaction is neither
    in the state nor created by the batch -/
def Absent (env : Env) (s : State) (txs : List Tx) : Prop :=
  ∀ f ∈ txs, f.kind = .faucet →
    s.coins.getCoin (markerOf env f) = none ∧ (createdOf s.height txs).get (markerOf env f) = none

theorem cns_accept {env : Env} {s : State} {txs : List Tx} {rel : Relevant} (hpre : SPre env s txs)
    (h1 : loadRelevantCoins s txs = .ok rel) (hstat : NextStatic env s txs) (habs : Absent env s txs)
    (hfr : ∀ a ∈ txs, s.txs.any (fun u => u.hash = a.hash) = false) :
    ∃ next, createNextState env s txs rel s.tip906 = .ok next ∧ (s.tip906 = true → CountsOk next.coins) := by
  have hinv0 : NextInv env s (startState s ((outputIds txs).foldl (insStep rel s.tip906) s.coins)) txs := by
    refine ⟨rfl, rfl, rfl, ?_, ?_, hfr⟩
    · intro ht
      simp only [startState]
      rw [ht]
      exact insFold_counts_true rel _ _ (hpre.counts ht) (fun id hid => by
        obtain ⟨tx, htx, i, rfl⟩ := mem_outputIds hid
        exact Or.inl (hpre.fresh tx htx i))
    · intro f hf hk
      simp only [startState]
      exact (start_none_iff _ h1 _).mpr (habs f hf hk)
  obtain ⟨next, hfold, hc⟩ := nextFold_accepts env s txs _ hstat hinv0
  exact ⟨next, by rw [createNextState_eq']; exact hfold, hc⟩

/-- everything an accepted batch tells us -/
structure Facts (env : Env) (s : State) (txs : List Tx) (fb : Header) (rel : Relevant) (sp : Nat)
    (s' : State) : Prop where
  hrel : loadRelevantCoins s txs = .ok rel
  hstk : ∀ a ∈ txs, ∃ v, stakeRes s a = .ok v
  hval : ∀ tx ∈ txs, checkTxValidity env s (lastHeaderOf s fb) tx rel (stakeMap s txs) = .ok ()
  hsp : speedFold env s rel txs = .ok sp
  stat : NextStatic env s txs
  abs : Absent env s txs
  /-- no transaction of the batch is already in the block (the `DuplicateTx` guard of `createNextState`) -/
  freshTx : ∀ a ∈ txs, s.txs.any (fun u => u.hash = a.hash) = false
  network : s'.network = s.network
  height : s'.height = s.height
  feeMultiplier : s'.feeMultiplier = s.feeMultiplier
  history : s'.history = s.history
  pools : s'.pools = s.pools
  doscSpeed : s'.doscSpeed = sp
  stakes : ∀ k, s'.stakes.getStake k = ((stakeMap s txs).get k).or (s.stakes.getStake k)
  feePool : s'.feePool = (txs.map (feeOf s.feeMultiplier)).foldl satAdd128 s.feePool
  tips : s'.tips = (txs.map fun tx => tx.fee - feeOf s.feeMultiplier tx).foldl satAdd128 s.tips
  txsEq : s'.txs = txs.foldl State.insertTx s.txs
  coins : ∀ id, s'.coins.getCoin id =
      if id ∈ txs.flatMap (·.inputs) then none
      else match (createdOf s.height txs).get id with
        | some c => some c
        | none => if id ∈ markerIdsOf env txs then some faucetMarker else s.coins.getCoin id
  countsT : s.tip906 = true → CountsOk s'.coins
  countsF : s.tip906 = false → s'.coins.counts = s.coins.counts

theorem batch_facts {env : Env} {s s' : State} {txs : List Tx} {fb : Header} (hpre : SPre env s txs)
    (h : applyBatch env s txs fb = .ok s') : ∃ rel sp, Facts env s txs fb rel sp s' := by
  obtain ⟨rel, ns, sp, next, h1, h2, h3, h4, h5, hs'⟩ := applyBatch_iff.mp h
  obtain ⟨hstk, rfl⟩ := loadStake_iff.mp h2
  rw [Outcome.forM'_eq_ok] at h3
  have h0 := h5
  rw [createNextState_eq'] at h0
  obtain ⟨i1, i2, i3, i4, i5, i6, i7, i8, i9, i10, i11⟩ := nextFold_info env _ txs _ _ h0
  simp only [startState] at i1 i2 i3 i4 i5 i6 i7 i8 i9 i10 i11
  have hstat : NextStatic env s txs :=
    ⟨nodup_of_hashes hpre.hashes, hpre.hashes, hpre.dist, hpre.notInp, fun f hf hk => (i11 f hf).2 hk,
      fun a ha => (i11 a ha).1⟩
  have habs0 := nextFold_absent env _ txs _ _ h0 hpre.notInp
  have habs : Absent env s txs := fun f hf hk => (start_none_iff _ h1 _).mp (habs0 f hf hk)
  have hfr : ∀ a ∈ txs, s.txs.any (fun u => u.hash = a.hash) = false := (nextFold_fresh env _ txs _ _ h0).2
  obtain ⟨next', h5', hc'⟩ := cns_accept hpre h1 hstat habs hfr
  rw [h5] at h5'
  cases h5'
  subst hs'
  refine ⟨rel, sp, ⟨h1, hstk, h3, h4, hstat, habs, hfr, i1, i2, i3, i4, i5, rfl, ?_, i8, i9, i10, ?_, hc', ?_⟩⟩
  · intro k
    simp only [finish]
    rw [stakeFold_get, i6]
    rfl
  · intro id
    exact applyBatch_getCoin h hpre.hm1 (hpre.hm2 _) id
  · intro ht
    exact createNext_counts_false (next := next) ht h5

theorem batch_accept {env : Env} {s : State} {txs : List Tx} {fb : Header} {rel : Relevant} {sp : Nat}
    (hpre : SPre env s txs) (hrel : loadRelevantCoins s txs = .ok rel)
    (hstk : ∀ a ∈ txs, ∃ v, stakeRes s a = .ok v)
    (hval : ∀ tx ∈ txs, checkTxValidity env s (lastHeaderOf s fb) tx rel (stakeMap s txs) = .ok ())
    (hsp : speedFold env s rel txs = .ok sp) (hstat : NextStatic env s txs) (habs : Absent env s txs)
    (hfr : ∀ a ∈ txs, s.txs.any (fun u => u.hash = a.hash) = false) :
    ∃ s', applyBatch env s txs fb = .ok s' := by
  obtain ⟨next, h5, -⟩ := cns_accept hpre hrel hstat habs hfr
  exact ⟨_, applyBatch_iff.mpr ⟨rel, stakeMap s txs, sp, next, hrel, loadStake_iff.mpr ⟨hstk, rfl⟩,
    (Outcome.forM'_eq_ok _ _).mpr hval, hsp, h5, rfl⟩⟩

/-! ### the speed fold -/

def spStep (env : Env) (s : State) (rel : Relevant) (speed : Nat) (tx : Tx) : Outcome Nat :=
  if tx.kind = .doscMint then (validateDoscmint env s rel tx).bind fun sp => .ok (max speed sp)
  else .ok speed

theorem speedFold_def (env : Env) (s : State) (rel : Relevant) (txs : List Tx) :
    speedFold env s rel txs = Outcome.foldlM' (spStep env s rel) s.doscSpeed txs := rfl

theorem speedFold_cons {env : Env} {s : State} {rel : Relevant} {t : Tx} {rest : List Tx} {sp : Nat} :
    speedFold env s rel (t :: rest) = .ok sp ↔
      ∃ b, speedFold env s rel [t] = .ok b ∧ Outcome.foldlM' (spStep env s rel) b rest = .ok sp := by
  rw [speedFold_def, speedFold_def, Outcome.foldlM'_cons_ok]
  constructor
  · rintro ⟨b, h1, h2⟩
    exact ⟨b, (Outcome.foldlM'_cons_ok _ _ _ _ _).mpr ⟨b, h1, rfl⟩, h2⟩
  · rintro ⟨b, h1, h2⟩
    rw [Outcome.foldlM'_cons_ok] at h1
    obtain ⟨b', h1, h3⟩ := h1
    rw [Outcome.foldlM'_nil_ok] at h3
    subst h3
    exact ⟨b', h1, h2⟩

theorem spStep_congr (env : Env) (s s' : State) (tx : Tx) (b : Nat) {rel rel' : Relevant}
    (hr : ∀ id ∈ tx.inputs, rel'.get id = rel.get id) (hh : s'.height = s.height)
    (hn : s'.network = s.network) (hist : s'.history = s.history) :
    spStep env s' rel' b tx = spStep env s rel b tx := by
  unfold spStep
  rw [doscmint_congr env s s' tx hr hh hn hist]

/-! ### splitting a batch at its head: how the pieces relate -/

theorem markers_cons {env : Env} {t : Tx} {rest : List Tx} {k : CoinID} :
    k ∈ markerIdsOf env (t :: rest) ↔ k ∈ markerIdsOf env [t] ∨ k ∈ markerIdsOf env rest := by
  simp only [mem_markerIdsOf, List.mem_cons, List.not_mem_nil, or_false, exists_eq_or_imp, exists_eq_left]

theorem inputs_cons {t : Tx} {rest : List Tx} {k : CoinID} :
    k ∈ (t :: rest).flatMap (·.inputs) ↔ k ∈ t.inputs ∨ k ∈ rest.flatMap (·.inputs) := by
  simp

theorem inputs_single {t : Tx} {k : CoinID} : k ∈ [t].flatMap (·.inputs) ↔ k ∈ t.inputs := by
  simp

theorem nextStatic_sub {env : Env} {s : State} {l l' : List Tx} (h : NextStatic env s l)
    (hsub : ∀ x ∈ l', x ∈ l) (hnd : l'.Nodup) (hnd' : (l'.map (·.hash)).Nodup) : NextStatic env s l' where
  nodup := hnd
  hnodup := hnd'
  dist := fun x hx f hf => h.dist x (hsub x hx) f (hsub f hf)
  notInp := fun f hf hk u hu => h.notInp f (hsub f hf) hk u (hsub u hu)
  netOk := fun f hf => h.netOk f (hsub f hf)
  fee := fun x hx => h.fee x (hsub x hx)

theorem nextStatic_congr {env : Env} {s s' : State} {l : List Tx} (h : NextStatic env s l)
    (hn : s'.network = s.network) (hf : s'.feeMultiplier = s.feeMultiplier) : NextStatic env s' l where
  nodup := h.nodup
  hnodup := h.hnodup
  dist := h.dist
  notInp := h.notInp
  netOk := fun f hf' hk hm => h.netOk f hf' hk (hn ▸ hm)
  fee := fun x hx => by rw [hf]; exact h.fee x hx

/-- no transaction of `rest` creates an input of `t` -/
def Dep (t : Tx) (rest : List Tx) : Prop := ∀ u ∈ rest, ∀ id ∈ t.inputs, id.txhash ≠ u.hash

theorem Dep.created {t : Tx} {rest : List Tx} (hdep : Dep t rest) (h : Nat) :
    ∀ id ∈ t.inputs, (createdOf h rest).get id = none :=
  fun id hid => createdOf_none_of_hash (fun u hu => hdep u hu id hid)

theorem Dep.stakes {t : Tx} {rest : List Tx} (hdep : Dep t rest) (s : State) :
    ∀ id ∈ t.inputs, (stakeMap s rest).get id.txhash = none := by
  intro id hid
  cases hc : (stakeMap s rest).get id.txhash with
  | none => rfl
  | some v =>
    obtain ⟨a, ha, he⟩ := stakeMap_key hc
    exact absurd he (hdep a ha id hid)

/-! ### the header covenants see

  `lastHeaderOf s _` is `history[height-1]` when that entry exists, else the stand-in `genesisStandIn s`, which is made of
  `s.network`, `s.height`, `s.feeMultiplier` and `s.doscSpeed` only (finding F25: the old fallback was the header of the
  block sealed as it stood, which changes with every transaction).  A batch keeps network, height, fee multiplier and
  history; it changes `doscSpeed` only by accepting a DoscMint transaction, and `validateDoscmint` accepts only when
  `history[height-1]` exists (it reads the previous header's speed).  So in a state without previous header no batch
  changes the stand-in, and the header covenants see is the same at every step of a one-at-a-time application — with no
  assumption on the state. -/

/-- an accepted DoscMint transaction needs the previous header -/
theorem doscmint_ok_prev {env : Env} {s : State} {rel : Relevant} {tx : Tx} {sp : Nat}
    (h : validateDoscmint env s rel tx = .ok sp) : ∃ prev, s.history.get (s.height - 1) = some prev := by
  cases hp : s.history.get (s.height - 1) with
  | some p => exact ⟨p, rfl⟩
  | none =>
    exfalso
    unfold validateDoscmint at h
    simp only [hp] at h
    repeat' split at h
    all_goals first | cases h | (obtain ⟨_, _, h⟩ := Outcome.bind_eq_ok.mp h; cases h)

/-- without previous header the speed fold cannot change the speed -/
theorem speedFold_first {env : Env} {s : State} {rel : Relevant} (hn : s.history.get (s.height - 1) = none) :
    ∀ (txs : List Tx) (b sp : Nat), Outcome.foldlM' (spStep env s rel) b txs = .ok sp → sp = b := by
  intro txs
  induction txs with
  | nil =>
    intro b sp h
    exact ((Outcome.foldlM'_nil_ok _ _ _).mp h).symm
  | cons t rest ih =>
    intro b sp h
    obtain ⟨b', h1, h2⟩ := (Outcome.foldlM'_cons_ok _ _ _ _ _).mp h
    have : b' = b := by
      unfold spStep at h1
      split at h1
      · obtain ⟨v, hv, -⟩ := Outcome.bind_eq_ok.mp h1
        obtain ⟨p, hp⟩ := doscmint_ok_prev hv
        rw [hn] at hp
        cases hp
      · cases h1
        rfl
    rw [ih b' sp h2, this]

/-- the stand-in is determined by network, height, fee multiplier and DOSC speed -/
theorem genesisStandIn_congr {s s' : State} (e2 : s'.height = s.height) (e3 : s'.network = s.network)
    (e4 : s'.feeMultiplier = s.feeMultiplier) (e5 : s'.doscSpeed = s.doscSpeed) :
    genesisStandIn s' = genesisStandIn s := by
  simp only [genesisStandIn, e2, e3, e4, e5]

theorem lastHeader_eq {s s' : State} (fb fb' : Header) (e1 : s'.history = s.history) (e2 : s'.height = s.height)
    (e3 : s'.network = s.network) (e4 : s'.feeMultiplier = s.feeMultiplier)
    (e5 : s.history.get (s.height - 1) = none → s'.doscSpeed = s.doscSpeed) :
    lastHeaderOf s' fb' = lastHeaderOf s fb := by
  unfold lastHeaderOf
  rw [e1, e2]
  cases hp : s.history.get (s.height - 1) with
  | some hdr => rfl
  | none => simp only [Option.getD_none, genesisStandIn_congr e2 e3 e4 (e5 hp)]

section split
variable {env : Env} {s sm : State} {t : Tx} {rest : List Tx} {fb' : Header}
  {rel relt relr : Relevant} {spt : Nat}

theorem rel_head (hdep : Dep t rest) (h : loadRelevantCoins s (t :: rest) = .ok rel)
    (ht : loadRelevantCoins s [t] = .ok relt) (id : CoinID) (hid : id ∈ t.inputs) :
    relt.get id = rel.get id := by
  rw [loadRel_get h, loadRel_get ht]
  unfold relSpec
  rw [createdOf_cons _ t rest, hdep.created _ id hid]
  have m1 : id ∈ (t :: rest).flatMap (·.inputs) := inputs_cons.mpr (Or.inl hid)
  have m2 : id ∈ [t].flatMap (·.inputs) := inputs_single.mpr hid
  simp only [Option.none_or, m1, m2, if_true]

theorem rel_tail (hpre : SPre env s (t :: rest)) (Ft : Facts env s [t] fb' relt spt sm)
    (h : loadRelevantCoins s (t :: rest) = .ok rel) (hr : loadRelevantCoins sm rest = .ok relr)
    (id : CoinID) (hid : id ∈ rest.flatMap (·.inputs)) (hnt : id ∉ t.inputs) :
    relr.get id = rel.get id := by
  rw [loadRel_get h, loadRel_get hr, Ft.height]
  unfold relSpec
  rw [createdOf_cons _ t rest, Ft.coins]
  have m1 : id ∈ (t :: rest).flatMap (·.inputs) := inputs_cons.mpr (Or.inr hid)
  have m2 : id ∉ [t].flatMap (·.inputs) := fun h => hnt (inputs_single.mp h)
  have m3 : id ∉ markerIdsOf env [t] := fun hm => hpre.hm1 id (markers_cons.mpr (Or.inl hm)) m1
  simp only [hid, m1, m2, m3, if_true, if_false]
  cases (createdOf s.height rest).get id <;> cases (createdOf s.height [t]).get id <;> simp

theorem stake_head (hdep : Dep t rest) (id : CoinID) (hid : id ∈ t.inputs) :
    (stakeMap s [t]).contains id.txhash = (stakeMap s (t :: rest)).contains id.txhash := by
  simp only [AList.contains]
  rw [stakeMap_cons s t rest, hdep.stakes s id hid, Option.none_or]

theorem stake_tail (Ft : Facts env s [t] fb' relt spt sm) (k : Hash) :
    ((stakeMap sm rest).contains k || (sm.stakes.getStake k).isSome) =
      ((stakeMap s (t :: rest)).contains k || (s.stakes.getStake k).isSome) := by
  rw [stakeMap_congr Ft.network Ft.height, Ft.stakes]
  simp only [AList.contains]
  rw [stakeMap_cons s t rest]
  simp only [Option.isSome_or, Bool.or_assoc]

theorem val_head (hdep : Dep t rest) (fb : Header)
    (h : loadRelevantCoins s (t :: rest) = .ok rel) (ht : loadRelevantCoins s [t] = .ok relt) :
    checkTxValidity env s (lastHeaderOf s fb') t relt (stakeMap s [t]) =
      checkTxValidity env s (lastHeaderOf s fb) t rel (stakeMap s (t :: rest)) := by
  rw [lastHeader_eq fb fb' rfl rfl rfl rfl (fun _ => rfl)]
  apply checkTx_congr
  · exact rel_head hdep h ht
  · intro id hid
    rw [stake_head hdep id hid]
  · rfl

theorem val_tail (hpre : SPre env s (t :: rest)) (Ft : Facts env s [t] fb' relt spt sm) (fb : Header)
    (h : loadRelevantCoins s (t :: rest) = .ok rel) (hr : loadRelevantCoins sm rest = .ok relr)
    (hdisj : ∀ id ∈ rest.flatMap (·.inputs), id ∉ t.inputs) (u : Tx) (hu : u ∈ rest) :
    checkTxValidity env sm (lastHeaderOf sm fb') u relr (stakeMap sm rest) =
      checkTxValidity env s (lastHeaderOf s fb) u rel (stakeMap s (t :: rest)) := by
  rw [lastHeader_eq fb fb' Ft.history Ft.height Ft.network Ft.feeMultiplier
    (fun hn => Ft.doscSpeed.trans (speedFold_first hn [t] s.doscSpeed spt Ft.hsp))]
  apply checkTx_congr
  · intro id hid
    have : id ∈ rest.flatMap (·.inputs) := List.mem_flatMap.mpr ⟨u, hu, hid⟩
    exact rel_tail hpre Ft h hr id this (hdisj id this)
  · intro id _
    exact stake_tail Ft _
  · exact legacyStakeLock_congr Ft.network Ft.height

theorem speed_iff (hpre : SPre env s (t :: rest)) (hdep : Dep t rest) (Ft : Facts env s [t] fb' relt spt sm)
    (h : loadRelevantCoins s (t :: rest) = .ok rel) (hr : loadRelevantCoins sm rest = .ok relr)
    (hdisj : ∀ id ∈ rest.flatMap (·.inputs), id ∉ t.inputs) (sp : Nat) :
    speedFold env s rel (t :: rest) = .ok sp ↔ speedFold env sm relr rest = .ok sp := by
  have e1 : speedFold env s rel [t] = .ok spt := by
    rw [← Ft.hsp, speedFold_def, speedFold_def]
    apply foldlM'_congr
    intro b a ha
    simp only [List.mem_cons, List.not_mem_nil, or_false] at ha
    subst ha
    exact (spStep_congr env s s a b (rel_head hdep h Ft.hrel) rfl rfl rfl).symm
  have e2 : ∀ b, Outcome.foldlM' (spStep env sm relr) b rest = Outcome.foldlM' (spStep env s rel) b rest := by
    intro b
    apply foldlM'_congr
    intro b u hu
    apply spStep_congr env s sm u b _ Ft.height Ft.network Ft.history
    intro id hid
    have : id ∈ rest.flatMap (·.inputs) := List.mem_flatMap.mpr ⟨u, hu, hid⟩
    exact rel_tail hpre Ft h hr id this (hdisj id this)
  rw [speedFold_cons, speedFold_def env sm, Ft.doscSpeed, e2]
  constructor
  · rintro ⟨b, h1, h2⟩
    rw [e1] at h1
    cases h1
    exact h2
  · intro h2
    exact ⟨spt, e1, h2⟩

/-- the state after the head satisfies the standing assumptions for the rest -/
theorem step_pre (hpre : SPre env s (t :: rest)) (Ft : Facts env s [t] fb' relt spt sm) :
    SPre env sm rest := by
  have hnd := hpre.hashes
  simp only [List.map_cons, List.nodup_cons] at hnd
  refine ⟨hpre.tail.hashes, hpre.tail.markers, hpre.tail.gfMarkers, ?_, ?_, ?_⟩
  · intro u hu i
    have hne : u.hash ≠ t.hash := fun e => hnd.1 (List.mem_map.mpr ⟨u, hu, e⟩)
    have c1 : (createdOf s.height [t]).get ⟨u.hash, i⟩ = none :=
      createdOf_none_of_hash (fun x hx => by
        simp only [List.mem_cons, List.not_mem_nil, or_false] at hx
        subst hx
        exact hne)
    have c2 : (⟨u.hash, i⟩ : CoinID) ∉ markerIdsOf env [t] := by
      intro hm
      obtain ⟨tx, htx, hins, he⟩ := mem_markerIdsOf.mp hm
      simp only [List.mem_cons, List.not_mem_nil, or_false] at htx
      subst htx
      simp only [insertsMarker, Bool.and_eq_true, decide_eq_true_eq, Bool.not_eq_true'] at hins
      have := ((hpre.markers tx List.mem_cons_self hins.1 hins.2).1 u (List.mem_cons_of_mem _ hu)).2
      simp only [markerOf, CoinID.mk.injEq] at he
      exact this he.1.symm
    rw [Ft.coins, c1]
    simp only [c2, if_false, hpre.fresh u (List.mem_cons_of_mem _ hu) i, ite_self]
  · intro ht
    rw [tip906_eq Ft.network Ft.height] at ht
    exact Ft.countsT ht
  · rw [Ft.txsEq]
    exact insertTx_sorted t hpre.sorted

theorem abs_head (habs : Absent env s (t :: rest)) : Absent env s [t] := by
  intro f hf hk
  simp only [List.mem_cons, List.not_mem_nil, or_false] at hf
  subst hf
  obtain ⟨a1, a2⟩ := habs f List.mem_cons_self hk
  rw [createdOf_cons _ f rest, Option.or_eq_none_iff] at a2
  exact ⟨a1, a2.2⟩

theorem abs_tail (hpre : SPre env s (t :: rest)) (Ft : Facts env s [t] fb' relt spt sm)
    (habs : Absent env s (t :: rest)) : Absent env sm rest := by
  intro f hf hk
  obtain ⟨a1, a2⟩ := habs f (List.mem_cons_of_mem _ hf) hk
  rw [createdOf_cons _ t rest, Option.or_eq_none_iff] at a2
  refine ⟨?_, by rw [Ft.height]; exact a2.1⟩
  have m3 : markerOf env f ∉ markerIdsOf env [t] := by
    intro hm
    obtain ⟨tx, htx, hins, he⟩ := mem_markerIdsOf.mp hm
    simp only [List.mem_cons, List.not_mem_nil, or_false] at htx
    subst htx
    have e := hpre.dist tx List.mem_cons_self f (List.mem_cons_of_mem _ hf) hins hk he.symm
    have hnd := nodup_of_hashes hpre.hashes
    rw [List.nodup_cons] at hnd
    exact hnd.1 (e ▸ hf)
  rw [Ft.coins, a2.2]
  simp only [m3, if_false, a1, ite_self]

/-- the pseudo-coin of a grandfathered faucet transaction is not a coin the batch creates (for the
    non-grandfathered ones this follows from `SPre.markers`) -/
def GfOk (env : Env) (s : State) (txs : List Tx) : Prop :=
  ∀ f ∈ txs, f.kind = .faucet → env.isGrandfathered f.hash = true →
    (createdOf s.height txs).get (markerOf env f) = none

theorem GfOk.tail (hgf : GfOk env s (t :: rest)) (hh : sm.height = s.height) : GfOk env sm rest := by
  intro f hf hk hb
  have := hgf f (List.mem_cons_of_mem _ hf) hk hb
  rw [createdOf_cons _ t rest, Option.or_eq_none_iff] at this
  rw [hh]
  exact this.1

theorem abs_join (hpre : SPre env s (t :: rest)) (Ft : Facts env s [t] fb' relt spt sm)
    (hgf : GfOk env s (t :: rest)) (ha : Absent env s [t]) (hb : Absent env sm rest) :
    Absent env s (t :: rest) := by
  have hcr : ∀ f ∈ t :: rest, f.kind = .faucet → (createdOf s.height (t :: rest)).get (markerOf env f) = none := by
    intro f hf hk
    by_cases hg : env.isGrandfathered f.hash = true
    · exact hgf f hf hk hg
    · exact createdOf_none_of_hash (fun u hu => ((hpre.markers f hf hk (by simpa using hg)).1 u hu).2)
  intro f hf hk
  refine ⟨?_, hcr f hf hk⟩
  rcases List.mem_cons.mp hf with rfl | hf'
  · exact (ha f List.mem_cons_self hk).1
  · have b1 := (hb f hf' hk).1
    have c := hcr f hf hk
    rw [createdOf_cons _ t rest, Option.or_eq_none_iff] at c
    have m2 : markerOf env f ∉ [t].flatMap (·.inputs) := fun h =>
      hpre.notInp f hf hk t List.mem_cons_self (inputs_single.mp h)
    rw [Ft.coins, c.2] at b1
    simp only [m2, if_false] at b1
    split at b1
    · cases b1
    · exact b1

end split

section main
variable {env : Env} {s sm s₁ s₂ : State} {t : Tx} {rest : List Tx} {fb fb' : Header}
  {rel relt relr : Relevant} {sp spt spr : Nat}

theorem head_accept (hpre : SPre env s (t :: rest)) (hdep : Dep t rest)
    (F : Facts env s (t :: rest) fb rel sp s₁)
    (fb' : Header) : ∃ sm, applyBatch env s [t] fb' = .ok sm := by
  obtain ⟨hwf, hnd, hin, -, -⟩ := loadRelevantCoins_ok F.hrel
  rw [List.flatMap_cons, List.nodup_append] at hnd
  obtain ⟨relt, hrt⟩ := loadRel_ok_of (s := s) (txs := [t])
    (fun tx htx => hwf tx (by
      simp only [List.mem_cons, List.not_mem_nil, or_false] at htx
      subst htx; exact List.mem_cons_self))
    (by simpa using hnd.1)
    (fun inp hi => by
      have hi' := inputs_single.mp hi
      rcases hin inp (inputs_cons.mpr (Or.inl hi')) with h | h
      · exact Or.inl h
      · rw [createdOf_cons _ t rest, hdep.created _ inp hi', Option.none_or] at h
        exact Or.inr h)
  obtain ⟨spt, hspt⟩ : ∃ b, speedFold env s relt [t] = .ok b := by
    obtain ⟨b, h1, -⟩ := speedFold_cons.mp F.hsp
    refine ⟨b, ?_⟩
    rw [← h1, speedFold_def, speedFold_def]
    apply foldlM'_congr
    intro b a ha
    simp only [List.mem_cons, List.not_mem_nil, or_false] at ha
    subst ha
    exact spStep_congr env s s a b (rel_head hdep F.hrel hrt) rfl rfl rfl
  refine batch_accept hpre.head hrt ?_ ?_ hspt (nextStatic_sub F.stat ?_ (by simp) (by simp)) (abs_head F.abs)
    (fun a ha => by
      simp only [List.mem_cons, List.not_mem_nil, or_false] at ha
      subst ha
      exact F.freshTx a List.mem_cons_self)
  · intro a ha
    simp only [List.mem_cons, List.not_mem_nil, or_false] at ha
    subst ha
    exact F.hstk a List.mem_cons_self
  · intro tx htx
    simp only [List.mem_cons, List.not_mem_nil, or_false] at htx
    subst htx
    rw [val_head hdep fb F.hrel hrt]
    exact F.hval tx List.mem_cons_self
  · intro x hx
    simp only [List.mem_cons, List.not_mem_nil, or_false] at hx
    subst hx
    exact List.mem_cons_self

theorem tail_accept (hpre : SPre env s (t :: rest)) (hdep : Dep t rest)
    (F : Facts env s (t :: rest) fb rel sp s₁)
    (Ft : Facts env s [t] fb' relt spt sm) : ∃ s₂, applyBatch env sm rest fb' = .ok s₂ := by
  obtain ⟨hwf, hnd, hin, -, -⟩ := loadRelevantCoins_ok F.hrel
  rw [List.flatMap_cons, List.nodup_append] at hnd
  obtain ⟨nd1, nd2, nd3⟩ := hnd
  have hdisj : ∀ id ∈ rest.flatMap (·.inputs), id ∉ t.inputs := fun id h1 h2 => nd3 id h2 id h1 rfl
  obtain ⟨relr, hrr⟩ := loadRel_ok_of (s := sm) (txs := rest)
    (fun tx htx => hwf tx (List.mem_cons_of_mem _ htx)) nd2
    (fun inp hi => by
      rw [Ft.height, Ft.coins]
      have m2 : inp ∉ [t].flatMap (·.inputs) := fun h => hdisj inp hi (inputs_single.mp h)
      simp only [m2, if_false]
      have := hin inp (inputs_cons.mpr (Or.inr hi))
      rw [createdOf_cons _ t rest] at this
      cases h1 : (createdOf s.height rest).get inp with
      | some c => exact Or.inr rfl
      | none =>
        rw [h1, Option.none_or] at this
        left
        cases h2 : (createdOf s.height [t]).get inp with
        | some c => rfl
        | none =>
          rw [h2] at this
          simp only [Option.isSome_none, Bool.false_eq_true, or_false] at this
          simp only
          split
          · rfl
          · exact this)
  refine batch_accept (step_pre hpre Ft) hrr ?_ ?_ ((speed_iff hpre hdep Ft F.hrel hrr hdisj sp).mp F.hsp)
    (nextStatic_congr (nextStatic_sub F.stat (fun x hx => List.mem_cons_of_mem _ hx)
      (List.nodup_cons.mp F.stat.nodup).2 hpre.tail.hashes) Ft.network Ft.feeMultiplier) (abs_tail hpre Ft F.abs)
    (fun a ha => by
      rw [Ft.txsEq, List.foldl_cons, List.foldl_nil, any_hash_insertTx,
        F.freshTx a (List.mem_cons_of_mem _ ha), Bool.false_or]
      have hn := hpre.hashes
      rw [List.map_cons, List.nodup_cons] at hn
      have : t.hash ≠ a.hash := fun e => hn.1 (List.mem_map.mpr ⟨a, ha, e.symm⟩)
      simpa using this)
  · intro a ha
    rw [stakeRes_congr Ft.network Ft.height]
    exact F.hstk a (List.mem_cons_of_mem _ ha)
  · intro u hu
    rw [val_tail hpre Ft fb F.hrel hrr hdisj u hu]
    exact F.hval u (List.mem_cons_of_mem _ hu)

theorem join_accept (hpre : SPre env s (t :: rest)) (hdep : Dep t rest)
    (hgf : GfOk env s (t :: rest))
    (Ft : Facts env s [t] fb' relt spt sm) (Fr : Facts env sm rest fb' relr spr s₂) (fb : Header) :
    ∃ s₁, applyBatch env s (t :: rest) fb = .ok s₁ := by
  obtain ⟨hwf1, hnd1, hin1, -, -⟩ := loadRelevantCoins_ok Ft.hrel
  obtain ⟨hwf2, hnd2, hin2, -, -⟩ := loadRelevantCoins_ok Fr.hrel
  have hdisj : ∀ id ∈ rest.flatMap (·.inputs), id ∉ t.inputs := by
    intro id h1 h2
    rcases hin2 id h1 with h | h
    · rw [Ft.coins, if_pos (inputs_single.mpr h2)] at h
      cases h
    · rw [Ft.height, hdep.created _ id h2] at h
      cases h
  obtain ⟨rel, hr⟩ := loadRel_ok_of (s := s) (txs := t :: rest)
    (fun tx htx => by
      rcases List.mem_cons.mp htx with e | h
      · subst e; exact hwf1 _ List.mem_cons_self
      · exact hwf2 _ h)
    (by
      rw [List.flatMap_cons, List.nodup_append]
      exact ⟨by simpa using hnd1, hnd2, fun a ha b hb e => hdisj b hb (e ▸ ha)⟩)
    (fun inp hi => by
      rw [createdOf_cons _ t rest]
      rcases inputs_cons.mp hi with h | h
      · rcases hin1 inp (inputs_single.mpr h) with h' | h'
        · exact Or.inl h'
        · right
          rw [hdep.created _ inp h, Option.none_or]
          exact h'
      · have m2 : inp ∉ [t].flatMap (·.inputs) := fun h' => hdisj inp h (inputs_single.mp h')
        have m3 : inp ∉ markerIdsOf env [t] := fun hm => hpre.hm1 inp (markers_cons.mpr (Or.inl hm)) hi
        rcases hin2 inp h with h' | h'
        · rw [Ft.coins] at h'
          simp only [m2, m3, if_false] at h'
          cases h2 : (createdOf s.height [t]).get inp with
          | some c => right; simp
          | none => rw [h2] at h'; left; exact h'
        · rw [Ft.height] at h'
          right
          simp [h'])
  refine batch_accept hpre hr ?_ ?_ ((speed_iff hpre hdep Ft hr Fr.hrel hdisj spr).mpr Fr.hsp)
    ⟨nodup_of_hashes hpre.hashes, hpre.hashes, hpre.dist, hpre.notInp, ?_, ?_⟩ (abs_join hpre Ft hgf Ft.abs Fr.abs)
    (fun a ha => by
      rcases List.mem_cons.mp ha with e | h
      · subst e; exact Ft.freshTx _ List.mem_cons_self
      · have := Fr.freshTx a h
        rw [Ft.txsEq, List.foldl_cons, List.foldl_nil, any_hash_insertTx, Bool.or_eq_false_iff] at this
        exact this.1)
  · intro a ha
    rcases List.mem_cons.mp ha with e | h
    · subst e; exact Ft.hstk _ List.mem_cons_self
    · rw [← stakeRes_congr Ft.network Ft.height]
      exact Fr.hstk a h
  · intro u hu
    rcases List.mem_cons.mp hu with e | h
    · subst e
      rw [← val_head hdep fb hr Ft.hrel]
      exact Ft.hval _ List.mem_cons_self
    · rw [← val_tail hpre Ft fb hr Fr.hrel hdisj u h]
      exact Fr.hval u h
  · intro f hf hk hm
    rcases List.mem_cons.mp hf with e | h
    · subst e; exact Ft.stat.netOk _ List.mem_cons_self hk hm
    · exact Fr.stat.netOk f h hk (Ft.network ▸ hm)
  · intro a ha
    rcases List.mem_cons.mp ha with e | h
    · subst e; exact Ft.stat.fee _ List.mem_cons_self
    · have := Fr.stat.fee a h
      rw [Ft.feeMultiplier] at this
      exact this

theorem equiv_trans {a b c : State} (h1 : Equiv a b) (h2 : Equiv b c) : Equiv a c :=
  ⟨fun id => (h1.coins id).trans (h2.coins id), fun h => (h1.counts h).trans (h2.counts h),
   fun k => (h1.stakes k).trans (h2.stakes k), h1.txs.trans h2.txs, h1.feePool.trans h2.feePool,
   h1.tips.trans h2.tips, h1.feeMultiplier.trans h2.feeMultiplier, h1.doscSpeed.trans h2.doscSpeed,
   h1.pools.trans h2.pools, h1.history.trans h2.history, h1.height.trans h2.height,
   h1.network.trans h2.network⟩

theorem equiv_refl (a : State) : Equiv a a :=
  ⟨fun _ => rfl, fun _ => rfl, fun _ => rfl, rfl, rfl, rfl, rfl, rfl, rfl, rfl, rfl, rfl⟩

theorem split_coins (hpre : SPre env s (t :: rest)) (hdep : Dep t rest)
    (F : Facts env s (t :: rest) fb rel sp s₁) (Ft : Facts env s [t] fb' relt spt sm)
    (Fr : Facts env sm rest fb' relr spr s₂) (id : CoinID) :
    s₁.coins.getCoin id = s₂.coins.getCoin id := by
  rw [F.coins, Fr.coins, Ft.coins, Ft.height, createdOf_cons _ t rest]
  have a1 : id ∈ t.inputs → (createdOf s.height rest).get id = none := hdep.created _ id
  have a2 : id ∈ t.inputs → id ∉ markerIdsOf env rest := fun h hm =>
    hpre.hm1 id (markers_cons.mpr (Or.inr hm)) (inputs_cons.mpr (Or.inl h))
  have a3 : id ∈ markerIdsOf env rest → (createdOf s.height [t]).get id = none := by
    intro hm
    have := hpre.hm2 s.height id (markers_cons.mpr (Or.inr hm))
    rw [createdOf_cons _ t rest, Option.or_eq_none_iff] at this
    exact this.2
  have e1 := @inputs_cons t rest id
  have e2 := @markers_cons env t rest id
  simp only [e1, e2, inputs_single]
  by_cases c1 : id ∈ rest.flatMap (·.inputs)
  · simp [c1]
  · by_cases c2 : id ∈ t.inputs
    · simp [c1, c2, a1 c2, a2 c2]
    · cases c3 : (createdOf s.height rest).get id with
      | some c => simp [c1, c2]
      | none =>
        by_cases c4 : id ∈ markerIdsOf env rest
        · simp [c1, c2, c4, a3 c4]
        · cases c5 : (createdOf s.height [t]).get id <;> simp [c1, c2, c4]

theorem split_equiv (hpre : SPre env s (t :: rest)) (hdep : Dep t rest)
    (F : Facts env s (t :: rest) fb rel sp s₁) (Ft : Facts env s [t] fb' relt spt sm)
    (Fr : Facts env sm rest fb' relr spr s₂) : Equiv s₁ s₂ := by
  have htip : sm.tip906 = s.tip906 := tip906_eq Ft.network Ft.height
  have hcoins := split_coins hpre hdep F Ft Fr
  have hdisj : ∀ id ∈ rest.flatMap (·.inputs), id ∉ t.inputs := by
    obtain ⟨-, hnd, -, -, -⟩ := loadRelevantCoins_ok F.hrel
    rw [List.flatMap_cons, List.nodup_append] at hnd
    exact fun id h1 h2 => hnd.2.2 id h2 id h1 rfl
  refine ⟨hcoins, ?_, ?_, ?_, ?_, ?_, ?_, ?_, ?_, ?_, ?_, ?_⟩
  · intro a
    cases ht : s.tip906 with
    | true => exact C20_counts_determined _ _ (F.countsT ht) (Fr.countsT (htip.trans ht)) hcoins a
    | false =>
      simp only [CoinMap.coinCount]
      rw [F.countsF ht, Fr.countsF (htip.trans ht), Ft.countsF ht]
  · intro k
    rw [F.stakes, Fr.stakes, Ft.stakes, stakeMap_congr Ft.network Ft.height, stakeMap_cons s t rest,
      Option.or_assoc]
  · rw [F.txsEq, Fr.txsEq, Ft.txsEq]
    rfl
  · rw [F.feePool, Fr.feePool, Ft.feePool, Ft.feeMultiplier]
    rfl
  · rw [F.tips, Fr.tips, Ft.tips, Ft.feeMultiplier]
    rfl
  · rw [F.feeMultiplier, Fr.feeMultiplier, Ft.feeMultiplier]
  · rw [F.doscSpeed, Fr.doscSpeed]
    have := (speed_iff hpre hdep Ft F.hrel Fr.hrel hdisj sp).mp F.hsp
    rw [Fr.hsp] at this
    cases this
    rfl
  · rw [F.pools, Fr.pools, Ft.pools]
  · rw [F.history, Fr.history, Ft.history]
  · rw [F.height, Fr.height, Ft.height]
  · rw [F.network, Fr.network, Ft.network]

end main

/-! ### the main statements, for `SPre` -/

theorem equiv_symm {a b : State} (h : Equiv a b) : Equiv b a :=
  ⟨fun id => (h.coins id).symm, fun k => (h.counts k).symm, fun k => (h.stakes k).symm, h.txs.symm,
   h.feePool.symm, h.tips.symm, h.feeMultiplier.symm, h.doscSpeed.symm, h.pools.symm, h.history.symm,
   h.height.symm, h.network.symm⟩

theorem split_main {env : Env} {s s₁ : State} {t : Tx} {rest : List Tx} {fb : Header}
    (hpre : SPre env s (t :: rest)) (hdep : Dep t rest)
    (h : applyBatch env s (t :: rest) fb = .ok s₁) (fb' : Header) :
    ∃ sm s₂, applyBatch env s [t] fb' = .ok sm ∧ applyBatch env sm rest fb' = .ok s₂ ∧ Equiv s₁ s₂ ∧
      SPre env sm rest ∧ sm.height = s.height ∧ sm.history = s.history := by
  obtain ⟨rel, sp, F⟩ := batch_facts hpre h
  obtain ⟨sm, hm⟩ := head_accept hpre hdep F fb'
  obtain ⟨relt, spt, Ft⟩ := batch_facts hpre.head hm
  obtain ⟨s₂, h2⟩ := tail_accept hpre hdep F Ft
  obtain ⟨relr, spr, Fr⟩ := batch_facts (step_pre hpre Ft) h2
  exact ⟨sm, s₂, hm, h2, split_equiv hpre hdep F Ft Fr, step_pre hpre Ft, Ft.height, Ft.history⟩

theorem join_main {env : Env} {s sm s₂ : State} {t : Tx} {rest : List Tx} {fb' : Header}
    (hpre : SPre env s (t :: rest)) (hdep : Dep t rest)
    (hgf : GfOk env s (t :: rest))
    (hm : applyBatch env s [t] fb' = .ok sm) (h2 : applyBatch env sm rest fb' = .ok s₂) (fb : Header) :
    ∃ s₁, applyBatch env s (t :: rest) fb = .ok s₁ ∧ Equiv s₁ s₂ := by
  obtain ⟨relt, spt, Ft⟩ := batch_facts hpre.head hm
  obtain ⟨relr, spr, Fr⟩ := batch_facts (step_pre hpre Ft) h2
  obtain ⟨s₁, h⟩ := join_accept hpre hdep hgf Ft Fr fb
  obtain ⟨rel, sp, F⟩ := batch_facts hpre h
  exact ⟨s₁, h, split_equiv hpre hdep F Ft Fr⟩

theorem step_main {env : Env} {s sm : State} {t : Tx} {rest : List Tx} {fb' : Header}
    (hpre : SPre env s (t :: rest)) (hm : applyBatch env s [t] fb' = .ok sm) :
    SPre env sm rest ∧ sm.height = s.height ∧ sm.history = s.history := by
  obtain ⟨relt, spt, Ft⟩ := batch_facts hpre.head hm
  exact ⟨step_pre hpre Ft, Ft.height, Ft.history⟩

theorem applyBatch_nil (env : Env) (s : State) (fb : Header) : applyBatch env s [] fb = .ok s := by
  rfl

/-- one at a time -/
def seqApply (env : Env) (s : State) (txs : List Tx) (fb : Header) : Outcome State :=
  Outcome.foldlM' (fun st tx => applyBatch env st [tx] fb) s txs

/-- a dependency-respecting order -/
def DepOrd : List Tx → Prop
  | [] => True
  | t :: rest => Dep t rest ∧ DepOrd rest

theorem seq_of_batch (env : Env) (fb' : Header) : ∀ (txs : List Tx) (s s₁ : State) (fb : Header),
    SPre env s txs → DepOrd txs →
    applyBatch env s txs fb = .ok s₁ → ∃ s₂, seqApply env s txs fb' = .ok s₂ ∧ Equiv s₁ s₂ := by
  intro txs
  induction txs with
  | nil =>
    intro s s₁ fb _ _ h
    rw [applyBatch_nil] at h
    cases h
    exact ⟨s, rfl, equiv_refl s⟩
  | cons t rest ih =>
    intro s s₁ fb hpre hdep h
    obtain ⟨sm, s₂, hm, h2, e, hpre', -, -⟩ := split_main hpre hdep.1 h fb'
    obtain ⟨s₃, hs, e'⟩ := ih sm s₂ fb' hpre' hdep.2 h2
    exact ⟨s₃, (Outcome.foldlM'_cons_ok _ _ _ _ _).mpr ⟨sm, hm, hs⟩, equiv_trans e e'⟩

theorem batch_of_seq (env : Env) (fb' : Header) : ∀ (txs : List Tx) (s s₂ : State) (fb : Header),
    SPre env s txs → DepOrd txs → GfOk env s txs →
    seqApply env s txs fb' = .ok s₂ → ∃ s₁, applyBatch env s txs fb = .ok s₁ ∧ Equiv s₁ s₂ := by
  intro txs
  induction txs with
  | nil =>
    intro s s₂ fb _ _ _ h
    cases h
    exact ⟨s, applyBatch_nil env s fb, equiv_refl s⟩
  | cons t rest ih =>
    intro s s₂ fb hpre hdep hgf h
    obtain ⟨sm, hm, hs⟩ := (Outcome.foldlM'_cons_ok _ _ _ _ _).mp h
    obtain ⟨hpre', e1, -⟩ := step_main hpre hm
    obtain ⟨s₁', h2, e'⟩ := ih sm s₂ fb' hpre' hdep.2 (hgf.tail e1) hs
    obtain ⟨s₁, h1, e⟩ := join_main hpre hdep.1 hgf hm h2 fb
    exact ⟨s₁, h1, equiv_trans e e'⟩

/-! ### every accepted batch leaves the header covenants see unchanged (no standing assumption) -/

/-- what every accepted batch keeps, and where its DOSC speed comes from -/
theorem batch_keeps {env : Env} {s s' : State} {txs : List Tx} {fb : Header}
    (h : applyBatch env s txs fb = .ok s') :
    s'.network = s.network ∧ s'.height = s.height ∧ s'.feeMultiplier = s.feeMultiplier ∧
    s'.history = s.history ∧ ∃ rel, loadRelevantCoins s txs = .ok rel ∧ speedFold env s rel txs = .ok s'.doscSpeed := by
  obtain ⟨rel, ns, sp, next, h1, -, -, h4, h5, rfl⟩ := applyBatch_iff.mp h
  rw [createNextState_eq'] at h5
  obtain ⟨i1, i2, i3, i4, -⟩ := nextFold_info env _ txs _ _ h5
  exact ⟨i1, i2, i3, i4, rel, h1, h4⟩

/-- a batch without DoscMint transaction keeps the DOSC speed -/
theorem speedFold_noMint {env : Env} {s : State} {rel : Relevant} :
    ∀ (txs : List Tx) (b sp : Nat), (∀ tx ∈ txs, tx.kind ≠ .doscMint) →
      Outcome.foldlM' (spStep env s rel) b txs = .ok sp → sp = b := by
  intro txs
  induction txs with
  | nil =>
    intro b sp _ h
    exact ((Outcome.foldlM'_nil_ok _ _ _).mp h).symm
  | cons t rest ih =>
    intro b sp hk h
    obtain ⟨b', h1, h2⟩ := (Outcome.foldlM'_cons_ok _ _ _ _ _).mp h
    have : b' = b := by
      unfold spStep at h1
      rw [if_neg (hk t List.mem_cons_self)] at h1
      cases h1
      rfl
    rw [ih b' sp (fun tx htx => hk tx (List.mem_cons_of_mem _ htx)) h2, this]

theorem batch_speed_noMint {env : Env} {s s' : State} {txs : List Tx} {fb : Header}
    (h : applyBatch env s txs fb = .ok s') (hk : ∀ tx ∈ txs, tx.kind ≠ .doscMint) : s'.doscSpeed = s.doscSpeed := by
  obtain ⟨-, -, -, -, rel, -, hsp⟩ := batch_keeps h
  exact speedFold_noMint txs _ _ hk hsp

/-- in a state without previous header no accepted batch changes the DOSC speed (it cannot contain a DoscMint) -/
theorem batch_speed_first {env : Env} {s s' : State} {txs : List Tx} {fb : Header}
    (h : applyBatch env s txs fb = .ok s') (hn : s.history.get (s.height - 1) = none) :
    s'.doscSpeed = s.doscSpeed := by
  obtain ⟨-, -, -, -, rel, -, hsp⟩ := batch_keeps h
  exact speedFold_first hn txs _ _ hsp

theorem batch_standIn {env : Env} {s s' : State} {txs : List Tx} {fb : Header}
    (h : applyBatch env s txs fb = .ok s') (hd : s'.doscSpeed = s.doscSpeed) :
    genesisStandIn s' = genesisStandIn s := by
  obtain ⟨e3, e2, e4, -, -⟩ := batch_keeps h
  exact genesisStandIn_congr e2 e3 e4 hd

/-- the header covenants see is the same after any accepted batch as before it -/
theorem batch_lastHeader {env : Env} {s s' : State} {txs : List Tx} {fb : Header}
    (h : applyBatch env s txs fb = .ok s') (fb₁ fb₂ : Header) : lastHeaderOf s' fb₁ = lastHeaderOf s fb₂ := by
  obtain ⟨e3, e2, e4, e1, -⟩ := batch_keeps h
  exact lastHeader_eq fb₂ fb₁ e1 e2 e3 e4 (batch_speed_first h)

end SeqL
end Mel
