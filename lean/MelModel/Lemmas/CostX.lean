/- helper lemmas for the execution-cost theorems (C11Cost): executed weight, flattened bytes, value depth -/
import MelModel.VM.Cost
import MelModel.Lemmas.Cost
import MelModel.Lemmas.Exec
namespace Mel.VM
open Mel Mel.Gen

/-! ## `runCost` agrees with `runFuel` -/

theorem runCost_fst_steps (o : Oracles) (ops : List Op) : ∀ (fuel : Nat) (st : Exec) (c : Cost),
    (runCost o ops fuel st c).1 = (runFuel o ops fuel st c.steps).1 ∧
    (runCost o ops fuel st c).2.steps = (runFuel o ops fuel st c.steps).2 := by
  intro fuel
  induction fuel with
  | zero => intro st c; simp [runCost, runFuel]
  | succ fuel ih =>
    intro st c
    simp only [runCost, runFuel]
    split
    · cases hs : step o ops st with
      | none => simp [Cost.charge]
      | some st' => exact ih st' (c.charge o ops st)
    · simp

/-! ## the potential drops by the table weight of the executed instruction -/

theorem opWeightAt_eq (ops : List Op) {pc : Nat} (h : pc < ops.length) :
    opWeightAt ops pc = opWeight ops[pc] := by
  simp [opWeightAt, List.getElem?_eq_getElem h]

/-- generalises `winW_ge_succ` -/
theorem winW_ge_opWeight (ops : List Op) {a b : Nat} (hab : a < b) (ha : a < ops.length) :
    opWeight ops[a] + winW ops (a + 1) b ≤ winW ops a b := by
  rw [winW_unfold ops hab ha]
  have := opWeight_le_carU ops[a] ((ops.take b).drop (a + 1))
  omega

/-- generalises `winW_lt` -/
theorem winW_lt_opWeight (ops : List Op) {a a' b : Nat} (hab : a < b) (ha : a < ops.length)
    (h : a < a') : opWeight ops[a] + winW ops a' b ≤ winW ops a b := by
  have h1 := winW_ge_opWeight ops hab ha
  have h2 := winW_anti ops b (show a + 1 ≤ a' by omega)
  omega

/-- generalises `phi_lt`: moving the pc forward from an executable position decreases the potential by at least
    the table weight of the instruction at that position -/
theorem phi_lt_opWeight (ops : List Op) (loops : List LoopState) {p p' : Nat} (hp : p < ops.length)
    (h : p < p') : opWeight ops[p] + phi ops p' loops ≤ phi ops p loops := by
  induction loops generalizing p p' with
  | nil => exact winW_lt_opWeight ops hp hp h
  | cons st rest ih =>
    simp only [phi]
    by_cases hpe : p < st.end_ + 1
    · have h1 := winW_lt_opWeight ops hpe hp h
      have h2 := phi_anti ops rest (p := max p (st.end_ + 1)) (p' := max p' (st.end_ + 1))
        (by omega)
      omega
    · have h1 := winW_anti ops (st.end_ + 1) (Nat.le_of_lt h)
      have e1 : max p (st.end_ + 1) = p := by omega
      have e2 : max p' (st.end_ + 1) = p' := by omega
      rw [e1, e2]
      have h2 := ih hp h
      omega

/-- generalises `phi_pos` -/
theorem phi_ge_opWeight (ops : List Op) (loops : List LoopState) {p : Nat} (hp : p < ops.length) :
    opWeight ops[p] ≤ phi ops p loops := by
  have := phi_lt_opWeight ops loops hp (Nat.lt_succ_self p)
  omega

/-- generalises `phi_execOp`: a successful instruction body decreases the potential by at least its table weight
    (for `Loop` the table weight is that of the instruction itself, `wLoopExtra`; the instructions of the body are
    charged when they are executed, on each iteration) -/
theorem phi_execOp_opWeight {o : Oracles} {ops : List Op} {st st' : Exec} (hpc : st.pc < ops.length)
    (h : execOp o ops[st.pc] st = some st') :
    opWeight ops[st.pc] + phi ops st'.pc st'.loops ≤ phi ops st.pc st.loops := by
  rcases execOp_cases h with ⟨hl, hlt⟩ | ⟨it, n, hop, hit, hpc', hl', hchk⟩
  · rw [hl]; exact phi_lt_opWeight ops _ hpc hlt
  · rw [hpc', hl', hop]
    simp only [phi, opWeight]
    have e : st.pc + 1 + n.toNat - 1 + 1 = st.pc + 1 + n.toNat := by omega
    have e2 : max (st.pc + 1) (st.pc + 1 + n.toNat) = st.pc + 1 + n.toNat := by omega
    rw [e, e2]
    have hm := mul_pred_add (winW ops (st.pc + 1) (st.pc + 1 + n.toNat)) it.toNat hit
    cases hloops : st.loops with
    | nil =>
      simp only [phi]
      have h1 := winW_loop ops hpc hpc hop
      rw [winW_clip] at h1
      have h2 := winW_anti ops ops.length (show st.pc + 1 ≤ st.pc + 1 + n.toNat by omega)
      omega
    | cons last tl =>
      have hle := hchk last tl hloops
      simp only [phi]
      have h1 := winW_loop ops (show st.pc < last.end_ + 1 by omega) hpc hop
      have e3 : min (st.pc + 1 + n.toNat) (last.end_ + 1) = st.pc + 1 + n.toNat := by omega
      have e4 : max (st.pc + 1 + n.toNat) (last.end_ + 1) = last.end_ + 1 := by omega
      have e5 : max st.pc (last.end_ + 1) = last.end_ + 1 := by omega
      rw [e3] at h1
      rw [e4, e5]
      have h2 := winW_anti ops (last.end_ + 1) (show st.pc + 1 ≤ st.pc + 1 + n.toNat by omega)
      omega

/-- generalises `phi_step` -/
theorem phi_step_opWeight {o : Oracles} {ops : List Op} {st st' : Exec} (hpc : st.pc < ops.length)
    (h : step o ops st = some st') :
    opWeight ops[st.pc] + phi ops st'.pc st'.loops ≤ phi ops st.pc st.loops := by
  unfold step at h
  rw [List.getElem?_eq_getElem hpc] at h
  simp only at h
  split at h
  · simp at h
  · rename_i st1 hex
    simp only [Option.some.injEq] at h
    subst h
    have h1 := phi_execOp_opWeight hpc hex
    have h2 := phi_updatePc ops st1.pc st1.loops
    simp only
    omega

/-- the table weight executed from any state is bounded by its potential -/
theorem runCost_xw_le (o : Oracles) (ops : List Op) : ∀ (fuel : Nat) (st : Exec) (c : Cost),
    (runCost o ops fuel st c).2.xw ≤ c.xw + phi ops st.pc st.loops := by
  intro fuel
  induction fuel with
  | zero => intro st c; simp [runCost]
  | succ fuel ih =>
    intro st c
    simp only [runCost]
    split
    · rename_i hpc
      have hw := opWeightAt_eq ops hpc
      split
      · have := phi_ge_opWeight ops st.loops hpc
        simp only [Cost.charge]
        omega
      · rename_i st' hs
        have h1 := phi_step_opWeight hpc hs
        have h2 := ih st' (c.charge o ops st)
        simp only [Cost.charge] at h2 ⊢
        omega
    · simp

/-- steps never exceed the executed weight (every table weight is ≥ 1) -/
theorem runCost_steps_le_xw (o : Oracles) (ops : List Op) : ∀ (fuel : Nat) (st : Exec) (c : Cost),
    c.steps ≤ c.xw → (runCost o ops fuel st c).2.steps ≤ (runCost o ops fuel st c).2.xw := by
  intro fuel
  induction fuel with
  | zero => intro st c h; simpa [runCost] using h
  | succ fuel ih =>
    intro st c h
    simp only [runCost]
    split
    · rename_i hpc
      have hw := opWeightAt_eq ops hpc
      have hp := opWeight_pos ops[st.pc]
      split
      · simp only [Cost.charge]; omega
      · exact ih _ _ (by simp only [Cost.charge]; omega)
    · simpa using h

/-! ## flattened bytes -/

theorem opFlat_le_opWeight (op : Op) (s : List Value) : opFlat op s ≤ opWeight op := by
  cases op <;> simp only [opFlat, Nat.zero_le]
  case hash n =>
    simp only [opWeight, wHashBase]
    split
    · split <;> omega
    · omega
  case sigeok n =>
    simp only [opWeight, wSigEOkBase]
    split
    · split
      · split
        · omega
        · split
          · omega
          · split
            · split
              · omega
              · split
                · split <;> omega
                · omega
            · omega
      · omega
    · omega
  case btoi =>
    simp only [opWeight, wBtoI]
    split
    · split <;> omega
    · omega

theorem stepFlat_le_opWeightAt (o : Oracles) (ops : List Op) (st : Exec) :
    stepFlat o ops st ≤ opWeightAt ops st.pc := by
  unfold stepFlat opWeightAt
  cases ops[st.pc]? with
  | none => exact Nat.le_refl _
  | some op => exact opFlat_le_opWeight op st.stack

theorem runCost_flat_le_xw (o : Oracles) (ops : List Op) : ∀ (fuel : Nat) (st : Exec) (c : Cost),
    c.flat ≤ c.xw → (runCost o ops fuel st c).2.flat ≤ (runCost o ops fuel st c).2.xw := by
  intro fuel
  induction fuel with
  | zero => intro st c h; simpa [runCost] using h
  | succ fuel ih =>
    intro st c h
    simp only [runCost]
    have hf := stepFlat_le_opWeightAt o ops st
    split
    · split
      · simp only [Cost.charge]; omega
      · exact ih _ _ (by simp only [Cost.charge]; omega)
    · simpa using h

/-! ## nesting depth -/

local notation "dl" => Value.depth.depthList

@[simp] theorem depth_int (v : U256) : (Value.int v).depth = 0 := by simp [Value.depth]
@[simp] theorem depth_bytes (b : Bytes) : (Value.bytes b).depth = 0 := by simp [Value.depth]
@[simp] theorem depth_vec (l : List Value) : (Value.vec l).depth = 1 + dl l := by simp [Value.depth]
@[simp] theorem dl_nil : dl [] = 0 := by simp [Value.depth.depthList]
@[simp] theorem dl_cons (v : Value) (l : List Value) : dl (v :: l) = max v.depth (dl l) := by
  simp [Value.depth.depthList]
@[simp] theorem depth_ofBool (b : Bool) : (Value.ofBool b).depth = 0 := by simp [Value.ofBool]
@[simp] theorem depth_ofNat (n : Nat) : (Value.ofNat n).depth = 0 := by simp [Value.ofNat]

theorem dl_append (a b : List Value) : dl (a ++ b) = max (dl a) (dl b) := by
  induction a with
  | nil => simp
  | cons x xs ih => simp only [List.cons_append, dl_cons, ih]; omega

theorem dl_getElem? : ∀ (l : List Value) (i : Nat) (v : Value), l[i]? = some v → v.depth ≤ dl l := by
  intro l
  induction l with
  | nil => intro i v h; simp at h
  | cons x xs ih =>
    intro i v h
    cases i with
    | zero => simp at h; subst h; simp only [dl_cons]; omega
    | succ i => simp at h; have := ih i v h; simp only [dl_cons]; omega

theorem dl_take : ∀ (l : List Value) (n : Nat), dl (l.take n) ≤ dl l := by
  intro l
  induction l with
  | nil => intro n; simp
  | cons x xs ih =>
    intro n
    cases n with
    | zero => simp
    | succ n => have := ih n; simp only [List.take_succ_cons, dl_cons]; omega

theorem dl_drop : ∀ (l : List Value) (n : Nat), dl (l.drop n) ≤ dl l := by
  intro l
  induction l with
  | nil => intro n; simp
  | cons x xs ih =>
    intro n
    cases n with
    | zero => simp
    | succ n => have := ih n; simp only [List.drop_succ_cons, dl_cons]; omega

theorem dl_slice (l : List Value) (b e : Nat) : dl (slice l b e) ≤ dl l :=
  Nat.le_trans (dl_take _ _) (dl_drop _ _)

theorem dl_listSet : ∀ (l : List Value) (i : Nat) (v : Value) (l' : List Value),
    listSet l i v = some l' → dl l' ≤ max (dl l) v.depth := by
  intro l
  induction l with
  | nil => intro i v l' h; simp [listSet] at h
  | cons x xs ih =>
    intro i v l' h
    cases i with
    | zero => simp [listSet] at h; subst h; simp only [dl_cons]; omega
    | succ i =>
      simp only [listSet, Option.map_eq_some_iff] at h
      obtain ⟨t, ht, rfl⟩ := h
      have := ih i v t ht
      simp only [dl_cons]; omega

theorem Heap.depth_get : ∀ (h : Heap) (k : Nat) (v : Value), h.get k = some v → v.depth ≤ h.depth := by
  intro h
  induction h with
  | nil => intro k v hg; simp [Heap.get] at hg
  | cons e rest ih =>
    intro k v hg
    obtain ⟨k', w⟩ := e
    simp only [Heap.get] at hg
    simp only [Heap.depth]
    split at hg
    · simp at hg; subst hg; omega
    · have := ih k v hg; omega

@[simp] theorem Heap.depth_set (h : Heap) (k : Nat) (v : Value) :
    (h.set k v).depth = max v.depth h.depth := by
  simp [Heap.set, Heap.depth]

theorem bind_ok_stack {x : Option (List Value)} {st st' : Exec}
    (h : (x.bind fun s => some { st with stack := s, pc := st.pc + 1 }) = some st') :
    x = some st'.stack ∧ st'.heap = st.heap := by
  cases x with
  | none => simp at h
  | some s => simp at h; subst h; simp

theorem monop_dl {s s' : List Value} {f : Value → Option Value} (h : monop s f = some s')
    (hf : ∀ x v, f x = some v → v.depth ≤ x.depth + 1) : dl s' ≤ dl s + 1 := by
  unfold monop at h
  split at h
  · rename_i x rest
    simp only [Option.map_eq_some_iff] at h
    obtain ⟨v, hv, rfl⟩ := h
    have := hf x v hv
    simp only [dl_cons]; omega
  · simp at h

theorem binop_dl {s s' : List Value} {f : Value → Value → Option Value} (h : binop s f = some s')
    (hf : ∀ x y v, f x y = some v → v.depth ≤ max x.depth y.depth + 1) : dl s' ≤ dl s + 1 := by
  unfold binop at h
  split at h
  · rename_i x y rest
    simp only [Option.map_eq_some_iff] at h
    obtain ⟨v, hv, rfl⟩ := h
    have := hf x y v hv
    simp only [dl_cons]; omega
  · simp at h

theorem triop_dl {s s' : List Value} {f : Value → Value → Value → Option Value}
    (h : triop s f = some s')
    (hf : ∀ x y z v, f x y z = some v → v.depth ≤ max x.depth (max y.depth z.depth) + 1) :
    dl s' ≤ dl s + 1 := by
  unfold triop at h
  split at h
  · rename_i x y z rest
    simp only [Option.map_eq_some_iff] at h
    obtain ⟨v, hv, rfl⟩ := h
    have := hf x y z v hv
    simp only [dl_cons]; omega
  · simp at h

theorem intBin_depth {g : U256 → U256 → Option U256} {x y v : Value} (h : intBin g x y = some v) :
    v.depth = 0 := by
  unfold intBin at h
  split at h
  · simp only [Option.map_eq_some_iff] at h
    obtain ⟨a, _, rfl⟩ := h
    simp
  · simp at h

theorem intoVec_some {x : Value} {l : List Value} (h : x.intoVec = some l) : x = .vec l := by
  cases x <;> simp [Value.intoVec] at h; subst h; rfl

theorem execOp_depth {o : Oracles} {op : Op} {st st' : Exec} (h : execOp o op st = some st') :
    dl st'.stack ≤ st.maxDepth + 1 ∧ Heap.depth st'.heap ≤ st.maxDepth := by
  unfold Exec.maxDepth
  cases op
  all_goals simp only [execOp] at h
  -- the `intBin` instructions
  all_goals try (
    obtain ⟨hx, hh⟩ := bind_ok_stack h
    refine ⟨?_, by rw [hh]; omega⟩
    have := binop_dl hx (fun x y v hf => by rw [intBin_depth hf]; omega)
    omega)
  -- instructions that push a constant or leave the stack alone
  all_goals try (
    simp only [Option.some.injEq] at h
    subst h
    simp
    done)
  all_goals try (
    simp only [Option.some.injEq] at h
    subst h
    simp
    omega)
  case not | hash | vlength | blength | itob | btoi | typeq =>
    all_goals
      obtain ⟨hx, hh⟩ := bind_ok_stack h
      refine ⟨?_, by rw [hh]; omega⟩
      have := monop_dl hx (fun x v hf => by
        cases x <;> (try simp [Value.intoInt] at hf) <;> (try split at hf) <;> (try simp at hf) <;>
          (first | (subst hf; simp) | (rcases hf with ⟨_, rfl⟩; simp) | simp))
      omega
  case bref | bappend | bpush | bcons =>
    all_goals
      obtain ⟨hx, hh⟩ := bind_ok_stack h
      refine ⟨?_, by rw [hh]; omega⟩
      have := binop_dl hx (fun x y v hf => by
        cases x <;> cases y <;>
          simp [Value.intoBytes, Value.intoU16, Value.intoTruncU8] at hf
        all_goals first
          | (rcases hf with ⟨_, rfl⟩; simp)
          | (simp only [Option.bind_eq_some_iff, Option.some.injEq] at hf
             rcases hf with ⟨_, _, _, _, rfl⟩; simp))
      omega
  case sigeok =>
    obtain ⟨hx, hh⟩ := bind_ok_stack h
    refine ⟨?_, by rw [hh]; omega⟩
    have := triop_dl hx (fun x y z v hf => by
      have : v.depth = 0 := by
        repeat' (split at hf)
        all_goals first
          | (simp at hf; done)
          | (simp only [Option.some.injEq] at hf; subst hf; simp)
      omega)
    omega
  case bslice =>
    obtain ⟨hx, hh⟩ := bind_ok_stack h
    refine ⟨?_, by rw [hh]; omega⟩
    have := triop_dl hx (fun x y z v hf => by
      have : v.depth = 0 := by
        simp only [bind, Option.bind_eq_some_iff] at hf
        rcases hf with ⟨_, _, _, _, hv⟩
        repeat' (split at hv)
        all_goals first
          | (simp at hv; done)
          | (simp only [Option.some.injEq] at hv; subst hv; simp)
      omega)
    omega
  case bset =>
    obtain ⟨hx, hh⟩ := bind_ok_stack h
    refine ⟨?_, by rw [hh]; omega⟩
    have := triop_dl hx (fun x y z v hf => by
      have : v.depth = 0 := by
        simp only [bind, Option.bind_eq_some_iff] at hf
        rcases hf with ⟨_, _, _, _, hv⟩
        split at hv
        · simp only [Option.bind_eq_some_iff, Option.map_eq_some_iff] at hv
          rcases hv with ⟨_, _, _, _, rfl⟩
          simp
        · simp at hv
      omega)
    omega
  case storeimm | bez | bnz | loop | dup =>
    all_goals
      repeat' (split at h)
      all_goals first
        | (simp at h; done)
        | (simp only [Option.some.injEq] at h; subst h; simp [*]; done)
        | (simp only [Option.some.injEq] at h; subst h; simp [*]; omega)
  case store =>
    split at h
    · simp only [Option.map_eq_some_iff] at h
      obtain ⟨addr, _, rfl⟩ := h
      simp [*]; omega
    · simp at h
  case load =>
    split at h
    · simp only [Option.bind_eq_some_iff, Option.some.injEq] at h
      obtain ⟨v, ⟨addr, _, hg⟩, rfl⟩ := h
      have := Heap.depth_get _ _ _ hg
      simp [*]; omega
    · simp at h
  case loadimm =>
    simp only [Option.bind_eq_some_iff, Option.some.injEq] at h
    obtain ⟨v, hg, rfl⟩ := h
    have := Heap.depth_get _ _ _ hg
    simp; omega
  case vref =>
    obtain ⟨hx, hh⟩ := bind_ok_stack h
    refine ⟨?_, by rw [hh]; omega⟩
    have := binop_dl hx (fun x y v hf => by
      simp only [bind, Option.bind_eq_some_iff] at hf
      obtain ⟨i, _, l, hl, hv⟩ := hf
      rw [intoVec_some hl]
      have := dl_getElem? _ _ _ hv
      simp; omega)
    omega
  case vappend =>
    obtain ⟨hx, hh⟩ := bind_ok_stack h
    refine ⟨?_, by rw [hh]; omega⟩
    have := binop_dl hx (fun x y v hf => by
      simp only [bind, Option.bind_eq_some_iff] at hf
      obtain ⟨a, ha, b, hb, hv⟩ := hf
      rw [intoVec_some ha, intoVec_some hb]
      split at hv
      · simp at hv
      · simp only [pure, Option.some.injEq] at hv
        subst hv
        simp only [depth_vec, dl_append]; omega)
    omega
  case vpush =>
    obtain ⟨hx, hh⟩ := bind_ok_stack h
    refine ⟨?_, by rw [hh]; omega⟩
    have := binop_dl hx (fun x y v hf => by
      simp only [Option.bind_eq_some_iff] at hf
      obtain ⟨a, ha, hv⟩ := hf
      rw [intoVec_some ha]
      split at hv
      · simp at hv
      · simp only [Option.some.injEq] at hv
        subst hv
        simp [dl_append]; omega)
    omega
  case vcons =>
    obtain ⟨hx, hh⟩ := bind_ok_stack h
    refine ⟨?_, by rw [hh]; omega⟩
    have := binop_dl hx (fun x y v hf => by
      simp only [Option.bind_eq_some_iff] at hf
      obtain ⟨a, ha, hv⟩ := hf
      rw [intoVec_some ha]
      split at hv
      · simp at hv
      · simp only [Option.some.injEq] at hv
        subst hv
        simp; omega)
    omega
  case vset =>
    obtain ⟨hx, hh⟩ := bind_ok_stack h
    refine ⟨?_, by rw [hh]; omega⟩
    have := triop_dl hx (fun x y z v hf => by
      simp only [bind, Option.bind_eq_some_iff, Option.map_eq_some_iff] at hf
      obtain ⟨i, _, l, hl, l', hs, rfl⟩ := hf
      rw [intoVec_some hl]
      have := dl_listSet _ _ _ _ hs
      simp; omega)
    omega
  case vslice =>
    obtain ⟨hx, hh⟩ := bind_ok_stack h
    refine ⟨?_, by rw [hh]; omega⟩
    have := triop_dl hx (fun x y z v hf => by
      simp only [bind, Option.bind_eq_some_iff] at hf
      obtain ⟨b, _, e, _, hv⟩ := hf
      split at hv
      · rename_i l
        have := dl_slice l b e
        split at hv <;> (simp only [Option.some.injEq] at hv; subst hv; simp; try omega)
      · simp at hv)
    omega

theorem step_maxDepth {o : Oracles} {ops : List Op} {st st' : Exec} (h : step o ops st = some st') :
    st'.maxDepth ≤ st.maxDepth + 1 := by
  unfold step at h
  split at h
  · simp at h
  · split at h
    · simp at h
    · rename_i st1 hex
      simp only [Option.some.injEq] at h
      subst h
      have := execOp_depth hex
      simp only [Exec.maxDepth] at *
      omega

theorem stepN_maxDepth (o : Oracles) (ops : List Op) : ∀ (k : Nat) (st st' : Exec),
    stepN o ops k st = some st' → st'.maxDepth ≤ st.maxDepth + k := by
  intro k
  induction k with
  | zero => intro st st' h; simp [stepN] at h; subst h; omega
  | succ k ih =>
    intro st st' h
    simp only [stepN, Option.bind_eq_some_iff] at h
    obtain ⟨st1, hs, h⟩ := h
    have h1 := step_maxDepth hs
    have h2 := ih st1 st' h
    omega

/-- `k` successful steps use up at least `k` of the potential -/
theorem stepN_phi (o : Oracles) (ops : List Op) : ∀ (k : Nat) (st st' : Exec),
    stepN o ops k st = some st' → k + phi ops st'.pc st'.loops ≤ phi ops st.pc st.loops := by
  intro k
  induction k with
  | zero => intro st st' h; simp [stepN] at h; subst h; omega
  | succ k ih =>
    intro st st' h
    simp only [stepN, Option.bind_eq_some_iff] at h
    obtain ⟨st1, hs, h⟩ := h
    have h1 := phi_step (step_some_pc_lt hs) hs
    have h2 := ih st1 st' h
    omega

theorem head?_depth_le (s : List Value) (v : Value) (h : s.head? = some v) : v.depth ≤ dl s := by
  cases s with
  | nil => simp at h
  | cons x xs => simp at h; subst h; simp only [dl_cons]; omega

/-- the value a run returns is no deeper than the deepest initial value plus the number of steps executed -/
theorem runFuel_result_depth (o : Oracles) (ops : List Op) : ∀ (fuel : Nat) (st : Exec) (n : Nat) (v : Value),
    (runFuel o ops fuel st n).1 = some v → v.depth + n ≤ st.maxDepth + (runFuel o ops fuel st n).2 := by
  intro fuel
  induction fuel with
  | zero => intro st n v h; simp [runFuel] at h
  | succ fuel ih =>
    intro st n v h
    simp only [runFuel] at h ⊢
    split at h
    · rename_i hpc
      simp only [hpc, if_true]
      cases hs : step o ops st with
      | none => simp [hs] at h
      | some st1 =>
        simp only [hs] at h
        have h1 := step_maxDepth hs
        have h2 := ih st1 (n + 1) v h
        simp only
        omega
    · rename_i hpc
      simp only [hpc, if_false]
      have := head?_depth_le _ _ h
      simp only [Exec.maxDepth]
      omega

/-! ### the witness family -/

theorem depth_nestVal : ∀ k, (nestVal k).depth = k + 1 := by
  intro k
  induction k with
  | zero => simp [nestVal]
  | succ k ih => simp [nestVal, ih]; omega

/-- machine state at the head of the loop body of `nestProg` -/
def nestSt (heap : Heap) (k j : Nat) : Exec :=
  { stack := [nestVal k], heap := heap, pc := 2, loops := [{ begin_ := 2, end_ := 3, left := j }] }

def nestEnd (heap : Heap) (k : Nat) : Exec :=
  { stack := [nestVal k], heap := heap, pc := 4, loops := [] }

theorem nest_iter (o : Oracles) (n : UInt16) (heap : Heap) (k j : Nat) :
    stepN o (nestProg n) 2 (nestSt heap k (j + 1)) = some (nestSt heap (k + 1) j) := by
  simp [stepN, step, nestProg, nestSt, execOp, binop, updatePc, Value.intoVec, USIZE_MAX, nestVal]

theorem nest_last (o : Oracles) (n : UInt16) (heap : Heap) (k : Nat) :
    stepN o (nestProg n) 2 (nestSt heap k 0) = some (nestEnd heap (k + 1)) := by
  simp [stepN, step, nestProg, nestSt, nestEnd, execOp, binop, updatePc, Value.intoVec, USIZE_MAX, nestVal]

theorem nest_loop (o : Oracles) (n : UInt16) (heap : Heap) : ∀ (j k : Nat),
    stepN o (nestProg n) (2 * (j + 1)) (nestSt heap k j) = some (nestEnd heap (k + j + 1)) := by
  intro j
  induction j with
  | zero => intro k; exact nest_last o n heap k
  | succ j ih =>
    intro k
    rw [show 2 * (j + 1 + 1) = 2 + 2 * (j + 1) by omega, stepN_add, nest_iter]
    simp only [Option.bind_some]
    rw [ih (k + 1)]
    congr 2
    omega

theorem nest_head_pos (o : Oracles) (n : UInt16) (heap : Heap) (hn : 0 < n.toNat) :
    stepN o (nestProg n) 2 (initExec heap) = some (nestSt heap 0 (n.toNat - 1)) := by
  simp [stepN, step, nestProg, nestSt, initExec, execOp, updatePc, nestVal, hn]

theorem nest_head_zero (o : Oracles) (heap : Heap) :
    stepN o (nestProg 0) 2 (initExec heap) = some (nestEnd heap 0) := by
  simp [stepN, step, nestProg, nestEnd, initExec, execOp, updatePc, nestVal]

theorem nest_run (o : Oracles) (n : UInt16) (heap : Heap) :
    stepN o (nestProg n) (2 * n.toNat + 2) (initExec heap) = some (nestEnd heap n.toNat) := by
  by_cases hn : 0 < n.toNat
  · rw [show 2 * n.toNat + 2 = 2 + 2 * (n.toNat - 1 + 1) by omega, stepN_add, nest_head_pos o n heap hn]
    simp only [Option.bind_some]
    rw [nest_loop]
    congr 2
    omega
  · have h0 : n = 0 := by
      apply UInt16.toNat_inj.mp
      simp; omega
    subst h0
    exact nest_head_zero o heap

/-! ### the heap a covenant starts from -/

theorem dl_map_le {α} (f : α → Value) (d : Nat) (hf : ∀ a, (f a).depth ≤ d) : ∀ l : List α, dl (l.map f) ≤ d := by
  intro l
  induction l with
  | nil => simp
  | cons x xs ih => have := hf x; simp only [List.map_cons, dl_cons]; omega

theorem depth_valOfTx (tx : Tx) : (valOfTx tx).depth ≤ 3 := by
  have h1 := dl_map_le valOfCoinID 1 (by intro a; simp [valOfCoinID]) tx.inputs
  have h2 := dl_map_le valOfCoinData 1 (by intro a; simp [valOfCoinData]) tx.outputs
  have h3 := dl_map_le Value.bytes 0 (by intro a; simp) tx.covenants
  have h4 := dl_map_le Value.bytes 0 (by intro a; simp) tx.sigs
  simp only [valOfTx, depth_vec, dl_cons, dl_nil, depth_ofNat, depth_bytes]
  omega

theorem depth_heapOfEnv (tx : Tx) (env : Option CovEnv) : Heap.depth (heapOfEnv tx env) ≤ 3 := by
  have := depth_valOfTx tx
  cases env with
  | none => simp [heapOfEnv, Heap.depth]; omega
  | some e => simp [heapOfEnv, Heap.depth, valOfHeader]; omega

end Mel.VM
