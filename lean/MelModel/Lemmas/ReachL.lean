/-
  Helper lemmas for Props/Reach.lean.
-/
import MelModel.Genesis
import MelModel.Chain
import MelModel.Props.C03
import MelModel.Props.C20
import MelModel.Lemmas.ChainL
import MelModel.Lemmas.TotalSeal
import MelModel.Lemmas.Total
namespace Mel
namespace ReachL
open Mel.Gen

/-! ### the coin-map part of the invariant -/

/-- what the coin map of a state at height `H` with TIP-906 flag `tip` satisfies -/
structure CMInv (tip : Bool) (H : Nat) (m : CoinMap) : Prop where
  keys : (m.coins.map (·.1)).Nodup
  counts : tip = true → CountsOk m
  noCounts : tip = false → m.counts = []
  heights : ∀ id c, m.getCoin id = some c → c.height ≤ H

theorem coins_insertCoin (m : CoinMap) (id : CoinID) (d : CoinDataHeight) (t : Bool) :
    (m.insertCoin id d t).coins = m.coins.set id d := by
  simp only [CoinMap.insertCoin]; split <;> rfl

theorem CMInv.empty (tip : Bool) (H : Nat) : CMInv tip H {} where
  keys := List.nodup_nil
  counts := fun _ => ⟨List.nodup_nil, List.nodup_nil, fun _ => rfl, fun e he => by cases he⟩
  noCounts := fun _ => rfl
  heights := fun id c h => by simp [CoinMap.getCoin, AList.get] at h

/-- inserting a coin that is new, or that replaces a coin locked by the same covenant -/
theorem CMInv.insert {tip : Bool} {H : Nat} {m : CoinMap} {id : CoinID} {d : CoinDataHeight}
    (h : CMInv tip H m) (hh : d.height ≤ H)
    (hold : ∀ old, m.getCoin id = some old → old.coinData.covhash = d.coinData.covhash) :
    CMInv tip H (m.insertCoin id d tip) where
  keys := by rw [coins_insertCoin]; exact AList.keys_nodup_set id d h.keys
  counts := by
    intro ht; subst ht
    cases hg : m.getCoin id with
    | none => exact C20_insert_fresh _ _ _ (h.counts rfl) hg
    | some old => exact C20_insert_overwrite _ _ _ old (h.counts rfl) hg (hold old hg)
  noCounts := by
    intro ht; subst ht
    have := h.noCounts rfl
    simp [CoinMap.insertCoin, this]
  heights := by
    intro k c hk
    rw [CoinMap.getCoin_insertCoin] at hk
    split at hk
    · cases hk; exact hh
    · exact h.heights k c hk

theorem CMInv.remove {tip : Bool} {H : Nat} {m m' : CoinMap} {id : CoinID}
    (h : CMInv tip H m) (hr : m.removeCoin id tip = .ok m') : CMInv tip H m' where
  keys := by rw [CoinMap.coins_removeCoin hr]; exact AList.keys_nodup_del id h.keys
  counts := by
    intro ht; subst ht
    obtain ⟨m'', h1, h2⟩ := C20_remove m id (h.counts rfl)
    rw [hr] at h1; cases h1; exact h2
  noCounts := by
    intro ht; subst ht
    simp only [CoinMap.removeCoin] at hr
    cases hr
    exact h.noCounts rfl
  heights := by
    intro k c hk
    rw [CoinMap.getCoin_removeCoin hr] at hk
    split at hk
    · cases hk
    · exact h.heights k c hk

theorem CMInv.removeFold {tip : Bool} {H : Nat} (ids : List CoinID) :
    ∀ (m m' : CoinMap), CMInv tip H m →
      Outcome.foldlM' (fun (c : CoinMap) id => c.removeCoin id tip) m ids = .ok m' → CMInv tip H m' :=
  fun m m' h hf => Outcome.foldlM'_inv (CMInv tip H) _ (fun _ _ _ hb hr => hb.remove hr) ids m m' h hf

/-! ### applying a batch -/

/-- the insertion pass of `createNextState` keeps the coin-map invariant: every inserted id is new or
    re-inserted with the very same coin -/
theorem insFold_cm (rel : Relevant) (t : Bool) (H : Nat) (base : CoinMap) (L : List CoinID)
    (hfresh : ∀ id ∈ L, base.getCoin id = none)
    (hrel : ∀ id c, rel.get id = some c → c.height ≤ H) :
    ∀ coins : CoinMap, CMInv t H coins →
      (∀ k c, coins.getCoin k = some c → base.getCoin k = some c ∨ rel.get k = some c) →
      CMInv t H (L.foldl (insStep rel t) coins) := by
  induction L with
  | nil => intro coins h _; exact h
  | cons id rest ih =>
    intro coins h hsrc
    have hf := hfresh id List.mem_cons_self
    rw [List.foldl_cons]
    apply ih (fun x hx => hfresh x (List.mem_cons_of_mem _ hx))
    · simp only [insStep]
      cases hr : rel.get id with
      | none => exact h
      | some cd =>
        simp only
        refine h.insert (hrel id cd hr) ?_
        intro old hg
        rcases hsrc id old hg with h1 | h1
        · rw [hf] at h1; cases h1
        · rw [hr] at h1; cases h1; rfl
    · intro k c hk
      rw [getCoin_insStep] at hk
      by_cases hki : k = id
      · rw [if_pos hki] at hk
        cases hr : rel.get k with
        | none => rw [hr] at hk; have := hsrc k c hk; rw [hr] at this; exact this
        | some cd => rw [hr] at hk; exact Or.inr hk
      · rw [if_neg hki] at hk
        exact hsrc k c hk

theorem nextStep_cm {env : Env} {t : Bool} {H : Nat} {st st' : State} {tx : Tx} (ht : st.tip906 = t)
    (h : CMInv t H st.coins) (hs : nextStep env t st tx = .ok st') :
    st'.tip906 = t ∧ CMInv t H st'.coins := by
  obtain ⟨-, hF, coins2, mf, hrm, -, -, rfl⟩ := C3.nextStep_iff.mp hs
  refine ⟨by rw [← ht]; exact C3.tip906_eq rfl rfl, ?_⟩
  have hfc : CMInv t H (C3.fcoins env st tx) := by
    unfold C3.fcoins
    split
    · next hm =>
      rw [ht]
      refine h.insert (Nat.zero_le _) ?_
      intro old hold
      rw [(hF (C3.insertsMarker_faucet hm)).1] at hold
      cases hold
    · exact h
  exact CMInv.removeFold tx.inputs _ _ hfc hrm

theorem speedFold_ge (env : Env) (s : State) (rel : Relevant) (txs : List Tx) (sp : Nat)
    (h : C3.speedFold env s rel txs = .ok sp) : s.doscSpeed ≤ sp := by
  unfold C3.speedFold at h
  refine Outcome.foldlM'_inv (fun v => s.doscSpeed ≤ v) _ ?_ txs _ _ (Nat.le_refl _) h
  intro b a b' hb hf
  split at hf
  · obtain ⟨v, -, hf⟩ := Outcome.bind_eq_ok hf
    cases hf
    exact Nat.le_trans hb (Nat.le_max_left _ _)
  · cases hf; exact hb

/-- everything an accepted batch keeps -/
theorem applyBatch_facts {env : Env} {s s' : State} {txs : List Tx} {fb : Header}
    (h : applyBatch env s txs fb = .ok s')
    (hcm : CMInv s.tip906 s.height s.coins)
    (hfresh : ∀ t ∈ txs, ∀ i, s.coins.getCoin ⟨t.hash, i⟩ = none) :
    s'.network = s.network ∧ s'.height = s.height ∧ s'.history = s.history ∧ s'.pools = s.pools ∧
    s.doscSpeed ≤ s'.doscSpeed ∧ s'.txs = txs.foldl State.insertTx s.txs ∧
    CMInv s.tip906 s.height s'.coins := by
  obtain ⟨rel, ns, sp, next, h1, -, -, h4, h5, rfl⟩ := C3.applyBatch_iff.mp h
  rw [createNextState_eq] at h5
  obtain ⟨i1, i2, -, i4, i5, -, -, -, -, i10, -⟩ := C3.nextFold_info env _ txs _ _ h5
  refine ⟨i1, i2, i4, i5, speedFold_ge env s rel txs sp h4, i10, ?_⟩
  have hstart : CMInv s.tip906 s.height ((outputIds txs).foldl (insStep rel s.tip906) s.coins) := by
    refine insFold_cm rel s.tip906 s.height s.coins (outputIds txs) ?_ (rel_heights h1 hcm.heights) s.coins hcm
      (fun k c hk => Or.inl hk)
    intro id hid
    obtain ⟨tx, htx, i, rfl⟩ := C3.mem_outputIds hid
    exact hfresh tx htx i
  have := Outcome.foldlM'_inv (fun st : State => st.tip906 = s.tip906 ∧ CMInv s.tip906 s.height st.coins)
    (nextStep env s.tip906) (fun b a b' hb hf => nextStep_cm hb.1 hb.2 hf) txs
    { s with coins := (outputIds txs).foldl (insStep rel s.tip906) s.coins } next
    ⟨C3.tip906_eq rfl rfl, hstart⟩ h5
  exact this.2

/-! ### small facts used by the state-level theorems -/

theorem sortedTxs_of_pairwise : ∀ {l : List Tx}, l.Pairwise C3.TxLt → SortedTxs l
  | [], _ => trivial
  | [_], _ => trivial
  | _ :: b :: _, h =>
    ⟨(List.pairwise_cons.mp h).1 b List.mem_cons_self, sortedTxs_of_pairwise (List.pairwise_cons.mp h).2⟩

theorem CMInv.tip_eq {t t' : Bool} {H : Nat} {m : CoinMap} (h : CMInv t H m) (e : t' = t) : CMInv t' H m := e ▸ h

theorem CMInv.mono {t : Bool} {H H' : Nat} {m : CoinMap} (h : CMInv t H m) (hle : H ≤ H') : CMInv t H' m :=
  ⟨h.keys, h.counts, h.noCounts, fun id c hc => Nat.le_trans (h.heights id c hc) hle⟩

theorem genesis_cm (cfg : GenesisConfig) :
    CMInv (genesisState cfg).tip906 (genesisState cfg).height (genesisState cfg).coins :=
  (CMInv.empty _ _).insert (Nat.le_refl _) (fun old h => by simp [CoinMap.getCoin, AList.get] at h)

theorem tipCondition_mono {s s' : State} (hn : s'.network = s.network) (hh : s.height ≤ s'.height) (a : Nat)
    (h : s.tipCondition a = true) : s'.tipCondition a = true := by
  unfold State.tipCondition at h ⊢
  rw [hn]
  split
  · next h0 => simp [h0] at h
  · next h0 =>
    rw [if_neg h0] at h
    split
    · next h1 => rw [if_pos h1] at h; simp only [decide_eq_true_eq] at h ⊢; omega
    · next h1 =>
      rw [if_neg h1] at h
      split
      · next h2 => rw [if_pos h2] at h; simp only [decide_eq_true_eq] at h ⊢; omega
      · rfl

/-- the history part of the invariant, when the header of the current height is recorded -/
theorem history_next {hist : AList Nat Header} {H : Nat} {hdr : Header} {P : Header → Prop}
    (hb : ∀ h x, hist.get h = some x → h < H) (hf : ∀ h, h < H → ∃ x, hist.get h = some x)
    (hh : ∀ h x, hist.get h = some x → x.height = h) (hs : ∀ h x, hist.get h = some x → P x)
    (hdrh : hdr.height = H) (hdrs : P hdr) :
    (∀ h x, (hist.set H hdr).get h = some x → h < H + 1) ∧
    (∀ h, h < H + 1 → ∃ x, (hist.set H hdr).get h = some x) ∧
    (∀ h x, (hist.set H hdr).get h = some x → x.height = h) ∧
    (∀ h x, (hist.set H hdr).get h = some x → P x) := by
  refine ⟨?_, ?_, ?_, ?_⟩
  · intro h x hx
    by_cases e : h = H
    · omega
    · rw [AList.get_set_ne _ _ e] at hx; have := hb h x hx; omega
  · intro h hlt
    by_cases e : h = H
    · subst e; exact ⟨hdr, AList.get_set_self _ _ _⟩
    · rw [AList.get_set_ne _ _ e]; exact hf h (by omega)
  · intro h x hx
    by_cases e : h = H
    · subst e; rw [AList.get_set_self] at hx; cases hx; exact hdrh
    · rw [AList.get_set_ne _ _ e] at hx; exact hh h x hx
  · intro h x hx
    by_cases e : h = H
    · subst e; rw [AList.get_set_self] at hx; cases hx; exact hdrs
    · rw [AList.get_set_ne _ _ e] at hx; exact hs h x hx

theorem transition_coins (m : CoinMap) (hempty : m.counts = []) : (applyTip906Transition m).coins = m.coins := by
  have hn : (AList.keys m.counts).Nodup := by rw [hempty]; exact List.nodup_nil
  have hz : ∀ e ∈ m.counts, e.2 ≠ 0 := by rw [hempty]; intro e he; cases he
  exact (tip906_fold_inv m.coins m hn hz).1

/-! ### sealing: the coin map -/

/-- `o` is the output that decides the covenant of the coin at slot `i` of `tx`: output `i`, where slot 1 of a
    single-output transaction counts as slot 0 (that is where a liquidity withdrawal puts its second coin) -/
def SlotOut (tx : Tx) (i : Nat) (o : CoinData) : Prop := tx.outputs[i]? = some o ∨ (i = 1 ∧ tx.outputs = [o])

theorem SlotOut.unique {tx : Tx} {i : Nat} {o o' : CoinData} (h : SlotOut tx i o) (h' : SlotOut tx i o') : o = o' := by
  rcases h with h | ⟨h1, h2⟩ <;> rcases h' with h' | ⟨h1', h2'⟩
  · rw [h] at h'; cases h'; rfl
  · subst h1'; rw [h2'] at h; simp at h
  · subst h1; rw [h2] at h'; simp at h'
  · rw [h2] at h2'; cases h2'; rfl

/-- every coin sitting at a slot of a transaction of the block is locked by the covenant of the output of
    that slot -/
def Slots (txs : List Tx) (m : CoinMap) : Prop :=
  ∀ tx ∈ txs, ∀ i c, m.getCoin ⟨tx.hash, i⟩ = some c → ∃ o, SlotOut tx i o ∧ c.coinData.covhash = o.covhash

theorem Slots.insert {txs : List Tx} {m : CoinMap} (hn : (txs.map (·.hash)).Nodup) (hs : Slots txs m)
    {tx : Tx} (htx : tx ∈ txs) {i : Nat} {o : CoinData} (hok : SlotOut tx i o) {d : CoinDataHeight}
    (hd : d.coinData.covhash = o.covhash) (t : Bool) : Slots txs (m.insertCoin ⟨tx.hash, i⟩ d t) := by
  intro tx' htx' i' c hc
  rw [CoinMap.getCoin_insertCoin] at hc
  split at hc
  · next e =>
    cases hc
    injection e with e1 e2
    have : tx' = tx := tx_eq_of_hash txs hn _ htx' _ htx e1
    subst this; subst e2
    exact ⟨o, hok, hd⟩
  · exact hs tx' htx' i' c hc

theorem Slots.remove {txs : List Tx} {m m' : CoinMap} (hs : Slots txs m) {id : CoinID} {t : Bool}
    (hr : m.removeCoin id t = .ok m') : Slots txs m' := by
  intro tx htx i c hc
  rw [CoinMap.getCoin_removeCoin hr] at hc
  split at hc
  · cases hc
  · exact hs tx htx i c hc

/-- the coin map while block `s0` is being sealed -/
structure SealCoins (s0 : State) (m : CoinMap) : Prop where
  cm : CMInv s0.tip906 s0.height m
  slots : Slots s0.txs m
  /-- settlement never creates or removes a coin with index 0 -/
  dom0 : ∀ h, (m.getCoin ⟨h, 0⟩).isSome = (s0.coins.getCoin ⟨h, 0⟩).isSome

theorem SealCoins.insertAt {s0 : State} {m : CoinMap} (hn : (s0.txs.map (·.hash)).Nodup) (h : SealCoins s0 m)
    {tx : Tx} (htx : tx ∈ s0.txs) {i : Nat} {o : CoinData} (hok : SlotOut tx i o)
    (hex : i = 0 → (s0.coins.getCoin ⟨tx.hash, 0⟩).isSome = true) {cd : CoinData} (hcd : cd.covhash = o.covhash) :
    SealCoins s0 (m.insertCoin ⟨tx.hash, i⟩ { coinData := cd, height := s0.height } s0.tip906) where
  cm := by
    refine h.cm.insert (Nat.le_refl _) ?_
    intro old hold
    obtain ⟨o', ho', hc'⟩ := h.slots tx htx i old hold
    rw [hc', ho'.unique hok]; exact hcd.symm
  slots := h.slots.insert hn htx hok hcd _
  dom0 := by
    intro x
    rw [CoinMap.getCoin_insertCoin]
    split
    · next e =>
      injection e with e1 e2
      subst e2
      rw [e1, hex rfl]; rfl
    · exact h.dom0 x

theorem SealCoins.remove1 {s0 : State} {m m' : CoinMap} (h : SealCoins s0 m) {x : Hash}
    (hr : m.removeCoin ⟨x, 1⟩ s0.tip906 = .ok m') : SealCoins s0 m' where
  cm := h.cm.remove hr
  slots := h.slots.remove hr
  dom0 := by
    intro y
    rw [CoinMap.getCoin_removeCoin hr]
    split
    · next e => injection e with _ e2; cases e2
    · exact h.dom0 y

theorem slotOut_head {tx : Tx} {o : CoinData} {rest : List CoinData} (h : tx.outputs = o :: rest) : SlotOut tx 0 o :=
  Or.inl (by rw [h]; rfl)

theorem slotOut_single {tx : Tx} {o : CoinData} (h : tx.outputs = [o]) : SlotOut tx 1 o := Or.inr ⟨rfl, h⟩

theorem nodup_hashes_of_pairwise : ∀ {l : List Tx}, l.Pairwise C3.TxLt → (l.map (·.hash)).Nodup
  | [], _ => List.nodup_nil
  | a :: rest, h => by
    rw [List.pairwise_cons] at h
    simp only [List.map_cons, List.nodup_cons, List.mem_map, not_exists, not_and]
    exact ⟨fun y hy e => C3.bytesLt_ne (h.1 y hy) e.symm, nodup_hashes_of_pairwise h.2⟩

/-! ### sealing: the state -/

/-- what holds of the state all through the sealing of block `s0` (before the proposer action) -/
structure SealInv (s0 st : State) : Prop where
  history : st.history = s0.history
  height : st.height = s0.height
  network : st.network = s0.network
  speed : st.doscSpeed = s0.doscSpeed
  txs : st.txs = s0.txs
  poolKeys : (st.pools.map (·.1)).Nodup
  coins : SealCoins s0 st.coins

theorem SealInv.tip906 {s0 st : State} (h : SealInv s0 st) : st.tip906 = s0.tip906 :=
  C3.tip906_eq h.network h.height

theorem SealInv.setPool {s0 st : State} (h : SealInv s0 st) (coins : CoinMap) (hc : SealCoins s0 coins)
    (k : PoolKey) (p : PoolState) : SealInv s0 { st with coins := coins, pools := st.pools.set k p } :=
  ⟨h.history, h.height, h.network, h.speed, h.txs, AList.keys_nodup_set k p h.poolKeys, hc⟩

theorem isSwapRequest_coin {s : State} {tx : Tx} (h : isSwapRequest s tx = true) :
    (s.coins.getCoin ⟨tx.hash, 0⟩).isSome = true := by
  unfold isSwapRequest at h
  simp only [Bool.and_eq_true] at h
  have h2 := h.2
  split at h2
  · cases h2
  · simp only [Bool.and_eq_true] at h2
    exact h2.1.1

theorem isDepositRequest_coin {s : State} {tx : Tx} (h : isDepositRequest s tx = true) :
    (s.coins.getCoin ⟨tx.hash, 0⟩).isSome = true := by
  unfold isDepositRequest at h
  simp only [Bool.and_eq_true] at h
  have h2 := h.2
  split at h2
  · simp only [Bool.and_eq_true] at h2
    exact h2.1.1.2
  · cases h2

theorem isWithdrawRequest_coin {env : Env} {s : State} {tx : Tx} (h : isWithdrawRequest env s tx = true) :
    (s.coins.getCoin ⟨tx.hash, 0⟩).isSome = true := by
  unfold isWithdrawRequest at h
  simp only [Bool.and_eq_true] at h
  have h2 := h.2
  split at h2
  · simp only [Bool.and_eq_true] at h2
    exact h2.1.2
  · cases h2

theorem processSwapsForPool_seal {s0 : State} (hn : (s0.txs.map (·.hash)).Nodup) (k : PoolKey) (st st' : State)
    (swaps : List Tx) (hi : SealInv s0 st)
    (hsw : ∀ tx ∈ swaps, tx ∈ s0.txs ∧ (∃ o rest, tx.outputs = o :: rest) ∧
      (s0.coins.getCoin ⟨tx.hash, 0⟩).isSome = true)
    (h : processSwapsForPool k st swaps = .ok st') : SealInv s0 st' := by
  unfold processSwapsForPool at h
  split at h
  · cases h
  · simp only at h
    split at h
    · cases h
    · cases h
    · obtain ⟨coins, hfold, h2⟩ := Outcome.bind_eq_ok h
      cases h2
      refine hi.setPool coins ?_ _ _
      refine Outcome.foldlM'_inv_mem (SealCoins s0) _ swaps ?_ _ _ hi.coins hfold
      intro b tx b' htx hb hf
      obtain ⟨hmem, ⟨o, rest, ho⟩, hex⟩ := hsw tx htx
      have hhd : tx.outputs.headD default = o := by rw [ho]; rfl
      simp only [hhd] at hf
      obtain ⟨cd, hcd, hf⟩ := Outcome.bind_eq_ok hf
      cases hf
      have hcov : cd.covhash = o.covhash := by
        split at hcd
        · obtain ⟨v, -, hcd⟩ := Outcome.bind_eq_ok hcd; cases hcd; rfl
        · obtain ⟨v, -, hcd⟩ := Outcome.bind_eq_ok hcd; cases hcd; rfl
      rw [hi.tip906, hi.height]
      exact hb.insertAt hn hmem (slotOut_head ho) (fun _ => hex) hcov

theorem processDepositsForPool_seal {s0 : State} (hn : (s0.txs.map (·.hash)).Nodup) (env : Env) (k : PoolKey)
    (st st' : State) (deps : List Tx) (hi : SealInv s0 st)
    (hd : ∀ tx ∈ deps, tx ∈ s0.txs ∧ (∃ o rest, tx.outputs = o :: rest) ∧
      (s0.coins.getCoin ⟨tx.hash, 0⟩).isSome = true)
    (h : processDepositsForPool env k st deps = .ok st') : SealInv s0 st' := by
  unfold processDepositsForPool at h
  simp only at h
  split at h
  · cases h
  · cases h
  · split at h
    · cases h; exact hi
    · obtain ⟨coins, hfold, h2⟩ := Outcome.bind_eq_ok h
      cases h2
      refine hi.setPool coins ?_ _ _
      refine Outcome.foldlM'_inv_mem (SealCoins s0) _ deps ?_ _ _ hi.coins hfold
      intro b tx b' htx hb hf
      obtain ⟨hmem, ⟨o, rest, ho⟩, hex⟩ := hd tx htx
      have hhd : tx.outputs.headD default = o := by rw [ho]; rfl
      simp only [hhd] at hf
      obtain ⟨v, -, hf⟩ := Outcome.bind_eq_ok hf
      rw [hi.tip906, hi.height] at hf
      have hins : SealCoins s0 (b.insertCoin ⟨tx.hash, 0⟩
          { coinData := { o with denom := liqTokenDenom env k, value := v }, height := s0.height } s0.tip906) :=
        hb.insertAt hn hmem (slotOut_head ho) (fun _ => hex) rfl
      split at hf
      · cases hf; exact hins
      · exact hins.remove1 hf

theorem processWithdrawalsForPool_seal {s0 : State} (hn : (s0.txs.map (·.hash)).Nodup) (k : PoolKey)
    (st st' : State) (reqs : List Tx) (hi : SealInv s0 st)
    (hw : ∀ tx ∈ reqs, tx ∈ s0.txs ∧ (∃ o, tx.outputs = [o]) ∧
      (s0.coins.getCoin ⟨tx.hash, 0⟩).isSome = true)
    (h : processWithdrawalsForPool k st reqs = .ok st') : SealInv s0 st' := by
  unfold processWithdrawalsForPool at h
  simp only at h
  split at h
  · cases h
  · split at h
    · cases h; exact hi
    · split at h
      · cases h
      · cases h
      · obtain ⟨coins, hfold, h2⟩ := Outcome.bind_eq_ok h
        cases h2
        refine hi.setPool coins ?_ _ _
        refine Outcome.foldlM'_inv_mem (SealCoins s0) _ reqs ?_ _ _ hi.coins hfold
        intro b tx b' htx hb hf
        obtain ⟨hmem, ⟨o, ho⟩, hex⟩ := hw tx htx
        have hhd : tx.outputs.headD default = o := by rw [ho]; rfl
        simp only [hhd] at hf
        obtain ⟨vl, -, hf⟩ := Outcome.bind_eq_ok hf
        obtain ⟨vr, -, hf⟩ := Outcome.bind_eq_ok hf
        cases hf
        rw [hi.tip906, hi.height]
        exact (hb.insertAt hn hmem (slotOut_head ho) (fun _ => hex)
          (cd := { o with denom := k.left, value := vl }) rfl).insertAt hn hmem (slotOut_single ho)
          (fun e => by cases e) (cd := { o with denom := k.right, value := vr }) rfl

theorem processSwaps_seal {s0 : State} (hn : (s0.txs.map (·.hash)).Nodup) (st st' : State) (hi : SealInv s0 st)
    (h : processSwaps st = .ok st') : SealInv s0 st' := by
  unfold processSwaps at h
  simp only at h
  refine Outcome.foldlM'_inv (SealInv s0) _ ?_ _ _ _ hi h
  intro b k b' hb hf
  refine processSwapsForPool_seal hn k b b' _ hb ?_ hf
  intro tx htx
  obtain ⟨htx, -⟩ := mem_transactionsForPool'.mp htx
  obtain ⟨hm, hr⟩ := List.mem_filter.mp htx
  obtain ⟨_, o, rest, _, _, ho, _⟩ := isSwapRequest_full hr
  refine ⟨hi.txs ▸ hm, ⟨o, rest, ho⟩, ?_⟩
  rw [← hi.coins.dom0]; exact isSwapRequest_coin hr

theorem processDeposits_seal {s0 : State} (hn : (s0.txs.map (·.hash)).Nodup) (env : Env) (st st' : State)
    (hi : SealInv s0 st) (h : processDeposits env st = .ok st') : SealInv s0 st' := by
  unfold processDeposits at h
  simp only at h
  refine Outcome.foldlM'_inv (SealInv s0) _ ?_ _ _ _ hi h
  intro b k b' hb hf
  refine processDepositsForPool_seal hn env k b b' _ hb ?_ hf
  intro tx htx
  obtain ⟨htx, -⟩ := mem_transactionsForPool'.mp htx
  obtain ⟨hm, hr⟩ := List.mem_filter.mp htx
  obtain ⟨_, o0, o1, rest, _, ho, _⟩ := isDepositRequest_full hr
  refine ⟨hi.txs ▸ hm, ⟨o0, o1 :: rest, ho⟩, ?_⟩
  rw [← hi.coins.dom0]; exact isDepositRequest_coin hr

theorem processWithdrawals_seal {s0 : State} (hn : (s0.txs.map (·.hash)).Nodup) (env : Env) (st st' : State)
    (hi : SealInv s0 st) (h : processWithdrawals env st = .ok st') : SealInv s0 st' := by
  unfold processWithdrawals at h
  simp only at h
  refine Outcome.foldlM'_inv (SealInv s0) _ ?_ _ _ _ hi h
  intro b k b' hb hf
  refine processWithdrawalsForPool_seal hn k b b' _ hb ?_ hf
  intro tx htx
  obtain ⟨htx, -⟩ := mem_transactionsForPool'.mp htx
  obtain ⟨hm, hr⟩ := List.mem_filter.mp htx
  obtain ⟨-, _, o0, _, ho, _⟩ := isWithdrawRequest_full hr
  refine ⟨hi.txs ▸ hm, ⟨o0, ho⟩, ?_⟩
  rw [← hi.coins.dom0]; exact isWithdrawRequest_coin hr

theorem SealInv.pools {s0 st : State} (h : SealInv s0 st) (pools : AList PoolKey PoolState)
    (hk : (pools.map (·.1)).Nodup) : SealInv s0 { st with pools := pools } :=
  ⟨h.history, h.height, h.network, h.speed, h.txs, hk, h.coins⟩

theorem createBuiltins_seal {s0 st : State} (hi : SealInv s0 st) : SealInv s0 (createBuiltins st) :=
  hi.pools (createBuiltins st).pools (createBuiltins_keys_nodup st hi.poolKeys)

theorem processPegging_seal {s0 st st' : State} (hi : SealInv s0 st) (h : processPegging st = .ok st') :
    SealInv s0 st' := by
  unfold processPegging at h
  simp only at h
  obtain ⟨⟨a, b⟩, _, h⟩ := Outcome.bind_eq_ok h
  simp only at h
  obtain ⟨sm, _, h⟩ := Outcome.bind_eq_ok h
  split at h
  · cases h
  · obtain ⟨sm1, _, h⟩ := Outcome.bind_eq_ok h
    obtain ⟨sm2, _, h⟩ := Outcome.bind_eq_ok h
    cases h
    exact hi.pools _ (AList.keys_nodup_set _ _ hi.poolKeys)

theorem presealMelmint_seal {s0 : State} (hn : (s0.txs.map (·.hash)).Nodup) (env : Env) (st st' : State)
    (hi : SealInv s0 st) (h : presealMelmint env st = .ok st') : SealInv s0 st' := by
  unfold presealMelmint at h
  simp only at h
  split at h
  · cases h
  · obtain ⟨s1, h1, h⟩ := Outcome.bind_eq_ok h
    obtain ⟨s2, h2, h⟩ := Outcome.bind_eq_ok h
    obtain ⟨s3, h3, h⟩ := Outcome.bind_eq_ok h
    exact processPegging_seal (createBuiltins_seal (processWithdrawals_seal hn env _ _ (processDeposits_seal hn env _ _
      (processSwaps_seal hn _ _ (createBuiltins_seal hi) h1) h2) h3)) h

/-- TIP-909 changes the fee pool and two pools -/
theorem applyTip909_seal {s0 st st' : State} (hi : SealInv s0 st) (h : applyTip909 st = .ok st') :
    SealInv s0 st' := by
  unfold applyTip909 at h
  simp only at h
  split at h
  · cases h
  · split at h
    · cases h
    · obtain ⟨⟨sm', mel, x⟩, _, h⟩ := Outcome.bind_eq_ok h
      simp only at h
      split at h
      · cases h
      · split at h
        · cases h
        · obtain ⟨⟨es', y, z⟩, _, h⟩ := Outcome.bind_eq_ok h
          cases h
          exact ⟨hi.history, hi.height, hi.network, hi.speed, hi.txs,
            AList.keys_nodup_set _ _ (AList.keys_nodup_set _ _ hi.poolKeys), hi.coins⟩

theorem collectProposerFee_cm {env : Env} {s0 st st' : State} {a : ProposerAction}
    (hnet : st.network = s0.network) (hh : st.height = s0.height) (hcm : CMInv s0.tip906 s0.height st.coins)
    (hfresh : st.coins.getCoin { txhash := env.rewardId st.height, index := 0 } = none)
    (h : collectProposerFee env st a = .ok st') :
    st'.history = st.history ∧ st'.height = st.height ∧ st'.network = st.network ∧
    st'.doscSpeed = st.doscSpeed ∧ st'.txs = st.txs ∧ st'.pools = st.pools ∧
    CMInv s0.tip906 s0.height st'.coins := by
  unfold collectProposerFee at h
  simp only at h
  split at h
  · cases h
  · cases h
    refine ⟨rfl, rfl, rfl, rfl, rfl, rfl, ?_⟩
    have ht : st.tip906 = s0.tip906 := C3.tip906_eq hnet hh
    simp only
    rw [ht]
    refine hcm.insert (Nat.le_of_eq hh) ?_
    intro old hold
    rw [hfresh] at hold
    cases hold

/-- what `sealState` keeps, and the coin-map invariant of the sealed state -/
theorem sealState_facts {env : Env} {s : State} {a : Option ProposerAction} {ss : Sealed}
    (hcm : CMInv s.tip906 s.height s.coins) (hslots : Slots s.txs s.coins) (hn : (s.txs.map (·.hash)).Nodup)
    (hpk : (s.pools.map (·.1)).Nodup)
    (hr : s.coins.getCoin { txhash := env.rewardId s.height, index := 0 } = none)
    (h : sealState env s a = .ok ss) :
    ss.st.history = s.history ∧ ss.st.height = s.height ∧ ss.st.network = s.network ∧
    ss.st.doscSpeed = s.doscSpeed ∧ ss.st.txs = s.txs ∧ (ss.st.pools.map (·.1)).Nodup ∧
    CMInv s.tip906 s.height ss.st.coins := by
  have h0 : SealInv s s := ⟨rfl, rfl, rfl, rfl, rfl, hpk, hcm, hslots, fun _ => rfl⟩
  unfold sealState at h
  obtain ⟨s1, h1, h⟩ := Outcome.bind_eq_ok h
  split at h
  · cases h
  · obtain ⟨s2, h2, h⟩ := Outcome.bind_eq_ok h
    have i1 := presealMelmint_seal hn env _ _ h0 h1
    have i2 : SealInv s s2 := by
      split at h2
      · exact applyTip909_seal i1 h2
      · cases h2; exact i1
    split at h
    · cases h
      exact ⟨i2.history, i2.height, i2.network, i2.speed, i2.txs, i2.poolKeys, i2.coins.cm⟩
    · obtain ⟨s3, h3, h⟩ := Outcome.bind_eq_ok h
      cases h
      unfold applyProposerAction at h3
      have hfresh : s2.coins.getCoin { txhash := env.rewardId s2.height, index := 0 } = none := by
        have := i2.coins.dom0 (env.rewardId s2.height)
        rw [i2.height, hr] at this
        rw [i2.height]
        cases hg : s2.coins.getCoin { txhash := env.rewardId s.height, index := 0 } with
        | none => rfl
        | some v => rw [hg] at this; cases this
      obtain ⟨e1, e2, e3, e4, e5, e6, e7⟩ := collectProposerFee_cm (s0 := s)
        (st := { s2 with feeMultiplier := moveFeeMultiplier s2.feeMultiplier _ s2.tip901 })
        i2.network i2.height i2.coins.cm hfresh h3
      exact ⟨e1.trans i2.history, e2.trans i2.height, e3.trans i2.network, e4.trans i2.speed, e5.trans i2.txs,
        by rw [e6]; exact i2.poolKeys, e7⟩

/-! ### where the coins of the state after a batch come from -/

theorem nextFold_source (env : Env) (t : Bool) : ∀ (txs : List Tx) (st st' : State),
    Outcome.foldlM' (nextStep env t) st txs = .ok st' →
    ∀ k c, st'.coins.getCoin k = some c →
      st.coins.getCoin k = some c ∨ ∃ f ∈ txs, insertsMarker env f = true ∧ k = BatchL.markerOf env f := by
  intro txs
  induction txs with
  | nil =>
    intro st st' h k c hk
    rw [Outcome.foldlM'_nil_ok] at h; subst h
    exact Or.inl hk
  | cons tx rest ih =>
    intro st st' h k c hk
    rw [Outcome.foldlM'_cons_ok] at h
    obtain ⟨st1, h1, h2⟩ := h
    rcases ih st1 st' h2 k c hk with h3 | ⟨f, hf, hm⟩
    · rw [getCoin_nextStep h1] at h3
      split at h3
      · cases h3
      · split at h3
        · next hmk => exact Or.inr ⟨tx, List.mem_cons_self, hmk⟩
        · exact Or.inl h3
    · exact Or.inr ⟨f, List.mem_cons_of_mem _ hf, hm⟩

theorem wellFormed_length {tx : Tx} (h : tx.isWellFormed = true) : tx.outputs.length ≤ 256 := by
  unfold Tx.isWellFormed at h
  simp only [Bool.and_eq_true, decide_eq_true_eq] at h
  omega

/-- a coin of the state after a batch was there before, or is an output of a transaction of the batch, or is
    the de-duplication marker of a faucet transaction of the batch -/
theorem applyBatch_source {env : Env} {s s' : State} {txs : List Tx} {fb : Header}
    (h : applyBatch env s txs fb = .ok s') (k : CoinID) (c : CoinDataHeight) (hk : s'.coins.getCoin k = some c) :
    s.coins.getCoin k = some c ∨
    (∃ tx ∈ txs, ∃ o, k.txhash = tx.hash ∧ tx.outputs[k.index]? = some o ∧ c.coinData.covhash = o.covhash) ∨
    (∃ f ∈ txs, insertsMarker env f = true ∧ k = BatchL.markerOf env f) := by
  obtain ⟨rel, newStakes, next, h1, -, -, h4, h5⟩ := applyBatch_ok h
  obtain ⟨hwf, -, -, r1, r2⟩ := loadRelevantCoins_ok h1
  rw [createNextState_eq] at h4
  rw [h5] at hk
  rcases nextFold_source env _ txs _ _ h4 k c hk with h6 | h6
  · simp only at h6
    rw [getCoin_insFold] at h6
    have hrel : rel.get k = some c → s.coins.getCoin k = some c ∨
        (∃ tx ∈ txs, ∃ o, k.txhash = tx.hash ∧ tx.outputs[k.index]? = some o ∧ c.coinData.covhash = o.covhash) := by
      intro hr
      cases hcr : (createdOf s.height txs).get k with
      | none => exact Or.inl (r2 k c hcr hr)
      | some c' =>
        have := r1 k c' hcr
        rw [hr] at this; cases this
        obtain ⟨-, -, -, tx, htx, o, -, e1, e2, -, e3, -⟩ :=
          createdOf_content (fun tx htx => wellFormed_length (hwf tx htx).1) hcr
        exact Or.inr ⟨tx, htx, o, e1, e2, e3⟩
    split at h6
    · cases hr : rel.get k with
      | none => rw [hr] at h6; exact Or.inl h6
      | some c' =>
        rw [hr] at h6
        simp only [Option.some.injEq] at h6; subst h6
        rcases hrel hr with h7 | h7
        · exact Or.inl h7
        · exact Or.inr (Or.inl h7)
    · exact Or.inl h6
  · exact Or.inr (Or.inr h6)

theorem applyBatch_txs {env : Env} {s s' : State} {txs : List Tx} {fb : Header}
    (h : applyBatch env s txs fb = .ok s') : s'.txs = txs.foldl State.insertTx s.txs := by
  obtain ⟨rel, ns, sp, next, -, -, -, -, h5, rfl⟩ := C3.applyBatch_iff.mp h
  rw [createNextState_eq] at h5
  exact (C3.nextFold_info env _ txs _ _ h5).2.2.2.2.2.2.2.2.2.1

/-- an accepted batch keeps the slot discipline, when the faucet markers it inserts keep clear of the
    transaction hashes of the block -/
theorem applyBatch_slots {env : Env} {s s' : State} {txs : List Tx} {fb : Header}
    (h : applyBatch env s txs fb = .ok s') (hsorted : s.txs.Pairwise C3.TxLt)
    (hhash : (txs.map (·.hash)).Nodup) (hfresh : ∀ t ∈ txs, ∀ i, s.coins.getCoin ⟨t.hash, i⟩ = none)
    (hslots : Slots s.txs s.coins)
    (hsep : ∀ f ∈ txs, f.kind = .faucet → env.isGrandfathered f.hash = false →
      ∀ u, u ∈ txs ∨ u ∈ s.txs → env.fdp f.hash ≠ u.hash) : Slots s'.txs s'.coins := by
  intro w hw i c hc
  rw [applyBatch_txs h, (C3.foldl_insertTx_spec txs s.txs hsorted hhash).2 w] at hw
  rcases applyBatch_source h _ c hc with h1 | ⟨tx, htx, o, e1, e2, e3⟩ | ⟨f, hf, hm, e⟩
  · rcases hw with hw | ⟨hw, -⟩
    · rw [hfresh w hw i] at h1; cases h1
    · exact hslots w hw i c h1
  · simp only at e1 e2
    rcases hw with hw | ⟨-, hall⟩
    · have : w = tx := tx_eq_of_hash txs hhash _ hw _ htx e1
      subst this
      exact ⟨o, Or.inl e2, e3⟩
    · exact absurd e1.symm (hall tx htx)
  · simp only [insertsMarker, Bool.and_eq_true, decide_eq_true_eq, Bool.not_eq_true'] at hm
    injection e with e1 _
    have hu : w ∈ txs ∨ w ∈ s.txs := hw.elim Or.inl (fun x => Or.inr x.1)
    exact absurd e1.symm (hsep f hf hm.1 hm.2 w hu)

theorem nextUnsealed_txs {env : Env} {ss : Sealed} {s' : State} (h : nextUnsealed env ss = .ok s') : s'.txs = [] := by
  unfold nextUnsealed at h
  obtain ⟨hdr, -, h⟩ := Outcome.bind_eq_ok h
  simp only at h
  split at h <;> cases h <;> rfl

/-! ### headers -/

theorem headerOf_total (env : Env) (ss : Sealed)
    (hfull : ∀ h, h < ss.st.height → ∃ hdr, ss.st.history.get h = some hdr) : ∃ hdr, headerOf env ss = .ok hdr := by
  unfold headerOf
  simp only
  by_cases h0 : ss.st.height = 0
  · rw [if_pos h0]; exact ⟨_, rfl⟩
  · rw [if_neg h0]
    obtain ⟨ph, hph⟩ := hfull (ss.st.height - 1) (by omega)
    rw [hph]; exact ⟨_, rfl⟩

theorem nextUnsealed_total (env : Env) (ss : Sealed) (hdr : Header) (h : headerOf env ss = .ok hdr) :
    ∃ s', nextUnsealed env ss = .ok s' := by
  unfold nextUnsealed
  rw [h]
  simp only [Outcome.bind]
  split <;> exact ⟨_, rfl⟩

end ReachL
end Mel
