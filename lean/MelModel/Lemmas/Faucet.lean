/- helper lemmas for C19 -/
import MelModel.Chain
import MelModel.Lemmas.Counts
namespace Mel
end Mel
