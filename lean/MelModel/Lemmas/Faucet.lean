/- helper lemmas for C19 -/
import MelModel.Chain
import MelModel.Lemmas.Counts
namespace Mel
-- helper lemmas whose names also occur in other lemma files live in `Mel.FaucetL`
namespace FaucetL namespace Outcome end Outcome namespace CoinMap end CoinMap end FaucetL
open FaucetL FaucetL.Outcome FaucetL.CoinMap

/-! ### `Outcome` combinators -/
namespace Outcome

theorem _root_.Mel.FaucetL.Outcome.bind_eq_ok {α β} {x : Outcome α} {f : α → Outcome β} {b : β} :
    x.bind f = .ok b ↔ ∃ a, x = .ok a ∧ f a = .ok b := by
  cases x <;> simp [bind]

theorem foldlM'_cons {α β} (f : β → α → Outcome β) (b : β) (a : α) (as : List α) :
    foldlM' f b (a :: as) = (f b a).bind (fun b' => foldlM' f b' as) := by
  simp only [foldlM', bind]

theorem foldlM'_append {α β} (f : β → α → Outcome β) (b : β) (l₁ l₂ : List α) :
    foldlM' f b (l₁ ++ l₂) = (foldlM' f b l₁).bind (fun b' => foldlM' f b' l₂) := by
  induction l₁ generalizing b with
  | nil => rfl
  | cons a as ih =>
    simp only [List.cons_append, foldlM'_cons, ih]
    cases f b a <;> rfl

/-- an invariant preserved by every successful step holds at the end of a successful fold -/
theorem _root_.Mel.FaucetL.Outcome.foldlM'_inv {α β} (P : β → Prop) {f : β → α → Outcome β} {l : List α} {b r : β}
    (h : foldlM' f b l = .ok r) (h0 : P b)
    (hs : ∀ a ∈ l, ∀ b b', P b → f b a = .ok b' → P b') : P r := by
  induction l generalizing b with
  | nil =>
    simp only [foldlM', ok.injEq] at h
    exact h ▸ h0
  | cons a as ih =>
    rw [foldlM'_cons, bind_eq_ok] at h
    obtain ⟨b', hb', h⟩ := h
    exact ih h (hs a (by simp) b b' h0 hb') (fun a' ha' => hs a' (by simp [ha']))

/-- in a successful fold every element was processed successfully from some accumulator -/
theorem foldlM'_step_ok {α β} {f : β → α → Outcome β} {l : List α} {b r : β}
    (h : foldlM' f b l = .ok r) : ∀ a ∈ l, ∃ b₁ b₂, f b₁ a = .ok b₂ := by
  induction l generalizing b with
  | nil => intro a ha; simp at ha
  | cons x as ih =>
    rw [foldlM'_cons, bind_eq_ok] at h
    obtain ⟨b', hb', h⟩ := h
    intro a ha
    rcases List.mem_cons.mp ha with rfl | ha
    · exact ⟨b, b', hb'⟩
    · exact ih h a ha

theorem forM'_ok {α} {f : α → Outcome Unit} {l : List α} (h : forM' f l = .ok ()) :
    ∀ a ∈ l, f a = .ok () := by
  induction l with
  | nil => intro a ha; simp at ha
  | cons x as ih =>
    simp only [forM'] at h
    intro a ha
    cases hx : f x with
    | ok u =>
      rw [hx] at h
      rcases List.mem_cons.mp ha with rfl | ha
      · exact hx
      · exact ih h a ha
    | reject e => rw [hx] at h; cases h
    | crash c => rw [hx] at h; cases h

end Outcome

/-- invariant rule for `List.foldl` -/
theorem foldl_inv {α β} (P : β → Prop) (f : β → α → β) (l : List α) (b : β) (h0 : P b)
    (hs : ∀ a ∈ l, ∀ b, P b → P (f b a)) : P (l.foldl f b) := by
  induction l generalizing b with
  | nil => exact h0
  | cons a as ih =>
    exact ih (f b a) (hs a (by simp) b h0) (fun a' ha' => hs a' (by simp [ha']))

/-! ### association lists -/
namespace AList
variable {κ ν : Type} [DecidableEq κ]

/-- a value found in an extended map was there before or is one of the new entries -/
theorem get_extend_some {m : AList κ ν} {es : List (κ × ν)} {k : κ} {v : ν}
    (h : get (extend m es) k = some v) : get m k = some v ∨ (k, v) ∈ es := by
  induction es generalizing m with
  | nil => exact .inl h
  | cons e rest ih =>
    simp only [extend, List.foldl_cons] at h
    rcases ih (m := set m e.1 e.2) h with h | h
    · by_cases hk : k = e.1
      · subst hk
        rw [get_set_self] at h
        simp only [Option.some.injEq] at h
        right; subst h; simp
      · rw [get_set_ne _ _ hk] at h; exact .inl h
    · exact .inr (List.mem_cons_of_mem _ h)

end AList

/-! ### the coin map -/
namespace CoinMap

theorem _root_.Mel.FaucetL.CoinMap.insertCoin_coins (m : CoinMap) (id : CoinID) (d : CoinDataHeight) (t : Bool) :
    (m.insertCoin id d t).coins = m.coins.set id d := by
  simp only [insertCoin]
  split <;> rfl

theorem _root_.Mel.FaucetL.CoinMap.getCoin_insertCoin (m : CoinMap) (id : CoinID) (d : CoinDataHeight) (t : Bool) (id' : CoinID) :
    (m.insertCoin id d t).getCoin id' = if id' = id then some d else m.getCoin id' := by
  simp only [getCoin, insertCoin_coins]
  split
  · next h => subst h; exact AList.get_set_self _ _ _
  · next h => exact AList.get_set_ne _ _ h

theorem _root_.Mel.FaucetL.CoinMap.removeCoin_coins {m m' : CoinMap} {id : CoinID} {t : Bool} (h : m.removeCoin id t = .ok m') :
    m'.coins = m.coins.del id := by
  unfold removeCoin at h
  split at h
  · split at h
    · simp only at h
      split at h
      · cases h
      · cases h; rfl
    · cases h; rfl
  · cases h; rfl

theorem _root_.Mel.FaucetL.CoinMap.getCoin_removeCoin {m m' : CoinMap} {id : CoinID} {t : Bool} (h : m.removeCoin id t = .ok m')
    (id' : CoinID) : m'.getCoin id' = if id' = id then none else m.getCoin id' := by
  simp only [getCoin, removeCoin_coins h]
  split
  · next h => subst h; exact AList.get_del_self _ _
  · next h => exact AList.get_del_ne _ h

/-- removing a list of coins leaves every other key alone -/
theorem getCoin_removeAll {t : Bool} {ins : List CoinID} {m m' : CoinMap}
    (h : Outcome.foldlM' (fun (coins : CoinMap) id => coins.removeCoin id t) m ins = .ok m')
    {k : CoinID} (hk : k ∉ ins) : m'.getCoin k = m.getCoin k := by
  refine Outcome.foldlM'_inv (fun c => c.getCoin k = m.getCoin k) h rfl ?_
  intro a ha b b' hb hstep
  have hne : k ≠ a := fun hka => hk (hka ▸ ha)
  rw [getCoin_removeCoin hstep, if_neg hne]
  exact hb

end CoinMap

/-! ### `handleFaucetTx` -/

theorem handleFaucetTx_ok {env : Env} {s s1 : State} {tx : Tx} (h : handleFaucetTx env s tx = .ok s1) :
    (s.network = .mainnet → env.isGrandfathered tx.hash = true) ∧
    s.coins.getCoin { txhash := env.fdp tx.hash, index := 0 } = none ∧
    s1.network = s.network ∧
    (env.isGrandfathered tx.hash = false →
      (s1.coins.getCoin { txhash := env.fdp tx.hash, index := 0 }).isSome) ∧
    (∀ k, (s.coins.getCoin k).isSome → s1.coins.getCoin k = s.coins.getCoin k) := by
  unfold handleFaucetTx at h
  simp only at h
  split at h
  · cases h
  · next hnet =>
    split at h
    · cases h
    · next habs =>
      have hnone : s.coins.getCoin { txhash := env.fdp tx.hash, index := 0 } = none := by
        cases hg : s.coins.getCoin { txhash := env.fdp tx.hash, index := 0 } with
        | none => rfl
        | some v => rw [hg] at habs; simp at habs
      have hnet' : s.network = .mainnet → env.isGrandfathered tx.hash = true := by
        intro hm
        cases hb : env.isGrandfathered tx.hash with
        | true => rfl
        | false => rw [hm, hb] at hnet; simp at hnet
      split at h
      · next hbug =>
        cases h
        refine ⟨hnet', hnone, rfl, ?_, ?_⟩
        · intro _
          simp only [CoinMap.getCoin_insertCoin, if_true, Option.isSome_some]
        · intro k hk
          simp only [CoinMap.getCoin_insertCoin]
          split
          · next hkk => subst hkk; rw [hnone] at hk; simp at hk
          · rfl
      · next hbug =>
        cases h
        refine ⟨hnet', hnone, rfl, ?_, fun _ _ => rfl⟩
        intro hf; rw [hf] at hbug; simp at hbug

/-! ### `createNextState` as a fold of `cnsStep` -/

/-- the per-transaction step of `create_next_state` -/
def cnsStep (env : Env) (tip906 : Bool) (st : State) (tx : Tx) : Outcome State :=
  if st.txs.any (fun t => t.hash = tx.hash) then .reject .duplicateTx else
  (if tx.kind = .faucet then handleFaucetTx env st tx else .ok st).bind fun st1 =>
  (Outcome.foldlM' (fun (coins : CoinMap) id => coins.removeCoin id tip906) st1.coins tx.inputs).bind fun coins2 =>
  (tx.baseFee st1.feeMultiplier).bind fun minFee =>
    if tx.fee < minFee then .reject .insufficientFees
    else .ok { st1 with coins := coins2,
                        tips := satAdd128 st1.tips (tx.fee - minFee),
                        feePool := satAdd128 st1.feePool minFee,
                        txs := State.insertTx st1.txs tx }

/-- the coin map after all created outputs were inserted -/
def cnsCoins1 (s : State) (txs : List Tx) (rel : Relevant) (tip906 : Bool) : CoinMap :=
  txs.foldl (fun (coins : CoinMap) tx =>
    (List.range tx.outputs.length).foldl (fun coins i =>
      let id : CoinID := { txhash := tx.hash, index := i % 256 }
      match rel.get id with
      | some cd => coins.insertCoin id cd tip906
      | none => coins) coins) s.coins

theorem FaucetL.createNextState_eq (env : Env) (s : State) (txs : List Tx) (rel : Relevant) (tip906 : Bool) :
    createNextState env s txs rel tip906 =
      Outcome.foldlM' (cnsStep env tip906) { s with coins := cnsCoins1 s txs rel tip906 } txs := rfl

theorem cnsCoins1_present {s : State} {txs : List Tx} {rel : Relevant} {t : Bool} {k : CoinID}
    (hp : (s.coins.getCoin k).isSome) : ((cnsCoins1 s txs rel t).getCoin k).isSome := by
  unfold cnsCoins1
  refine foldl_inv (fun (c : CoinMap) => (c.getCoin k).isSome) _ _ _ hp ?_
  intro tx _ c hc
  refine foldl_inv (fun (c : CoinMap) => (c.getCoin k).isSome) _ _ _ hc ?_
  intro i _ c hc
  simp only
  split
  · rw [CoinMap.getCoin_insertCoin]; split
    · rfl
    · exact hc
  · exact hc

theorem cnsCoins1_other {s : State} {txs : List Tx} {rel : Relevant} {t : Bool} {k : CoinID}
    (hk : ∀ tx ∈ txs, k.txhash ≠ tx.hash) : (cnsCoins1 s txs rel t).getCoin k = s.coins.getCoin k := by
  unfold cnsCoins1
  refine foldl_inv (fun (c : CoinMap) => c.getCoin k = s.coins.getCoin k) _ _ _ rfl ?_
  intro tx htx c hc
  refine foldl_inv (fun (c : CoinMap) => c.getCoin k = s.coins.getCoin k) _ _ _ hc ?_
  intro i _ c hc
  simp only
  split
  · rw [CoinMap.getCoin_insertCoin, if_neg]
    · exact hc
    · intro hkk; exact hk tx htx (by rw [hkk])
  · exact hc

theorem cnsStep_ok {env : Env} {t : Bool} {st st' : State} {tx : Tx} (h : cnsStep env t st tx = .ok st') :
    ∃ st1, (if tx.kind = .faucet then handleFaucetTx env st tx else .ok st) = .ok st1 ∧
      st'.network = st1.network ∧ ∀ k, k ∉ tx.inputs → st'.coins.getCoin k = st1.coins.getCoin k := by
  unfold cnsStep at h
  split at h
  · cases h
  rw [Outcome.bind_eq_ok] at h
  obtain ⟨st1, h1, h⟩ := h
  rw [Outcome.bind_eq_ok] at h
  obtain ⟨coins2, h2, h⟩ := h
  rw [Outcome.bind_eq_ok] at h
  obtain ⟨minFee, _, h⟩ := h
  split at h
  · cases h
  · cases h
    exact ⟨st1, h1, rfl, fun k hk => CoinMap.getCoin_removeAll h2 hk⟩

theorem cnsStep_network {env : Env} {t : Bool} {st st' : State} {tx : Tx}
    (h : cnsStep env t st tx = .ok st') : st'.network = st.network := by
  obtain ⟨st1, h1, hn, _⟩ := cnsStep_ok h
  split at h1
  · rw [hn, (handleFaucetTx_ok h1).2.2.1]
  · cases h1; exact hn

/-- a coin that is present and is not an input of the transaction is left alone by the step -/
theorem cnsStep_keep {env : Env} {t : Bool} {st st' : State} {tx : Tx}
    (h : cnsStep env t st tx = .ok st') {k : CoinID} (hk : k ∉ tx.inputs)
    (hp : (st.coins.getCoin k).isSome) : st'.coins.getCoin k = st.coins.getCoin k := by
  obtain ⟨st1, h1, _, hc⟩ := cnsStep_ok h
  rw [hc k hk]
  split at h1
  · exact (handleFaucetTx_ok h1).2.2.2.2 k hp
  · cases h1; rfl

/-- what a successful step tells about a faucet transaction -/
theorem cnsStep_faucet {env : Env} {t : Bool} {st st' : State} {tx : Tx}
    (h : cnsStep env t st tx = .ok st') (hf : tx.kind = .faucet) :
    (st.network = .mainnet → env.isGrandfathered tx.hash = true) ∧
    st.coins.getCoin { txhash := env.fdp tx.hash, index := 0 } = none ∧
    (env.isGrandfathered tx.hash = false → { txhash := env.fdp tx.hash, index := 0 } ∉ tx.inputs →
      (st'.coins.getCoin { txhash := env.fdp tx.hash, index := 0 }).isSome) := by
  obtain ⟨st1, h1, _, hc⟩ := cnsStep_ok h
  rw [if_pos hf] at h1
  obtain ⟨a, b, _, d, _⟩ := handleFaucetTx_ok h1
  exact ⟨a, b, fun hng hin => by rw [hc _ hin]; exact d hng⟩

theorem cnsFold_network {env : Env} {t : Bool} {st r : State} {l : List Tx}
    (h : Outcome.foldlM' (cnsStep env t) st l = .ok r) : r.network = st.network :=
  Outcome.foldlM'_inv (fun b => b.network = st.network) h rfl
    (fun _ _ _ _ hb hs => (cnsStep_network hs).trans hb)

theorem cnsFold_keep {env : Env} {t : Bool} {st r : State} {l : List Tx}
    (h : Outcome.foldlM' (cnsStep env t) st l = .ok r) {k : CoinID} (hk : ∀ tx ∈ l, k ∉ tx.inputs)
    (hp : (st.coins.getCoin k).isSome) : r.coins.getCoin k = st.coins.getCoin k :=
  Outcome.foldlM'_inv (fun b => b.coins.getCoin k = st.coins.getCoin k) h rfl
    (fun a ha _ _ hb hs => (cnsStep_keep hs (hk a ha) (by rw [hb]; exact hp)).trans hb)

/-- the state reached just before a given member of the list, and the step taken from it -/
theorem cnsFold_split {env : Env} {t : Bool} {st r : State} {l₁ l₂ : List Tx} {tx : Tx}
    (h : Outcome.foldlM' (cnsStep env t) st (l₁ ++ tx :: l₂) = .ok r) :
    ∃ mid mid', Outcome.foldlM' (cnsStep env t) st l₁ = .ok mid ∧ cnsStep env t mid tx = .ok mid' ∧
      Outcome.foldlM' (cnsStep env t) mid' l₂ = .ok r := by
  rw [Outcome.foldlM'_append, Outcome.bind_eq_ok] at h
  obtain ⟨mid, h1, h⟩ := h
  rw [Outcome.foldlM'_cons, Outcome.bind_eq_ok] at h
  obtain ⟨mid', h2, h3⟩ := h
  exact ⟨mid, mid', h1, h2, h3⟩

/-- a faucet transaction whose marker is present at the start of the fold makes it fail -/
theorem cnsFold_dup {env : Env} {t : Bool} {st r : State} {l : List Tx} {tx : Tx}
    (htx : tx ∈ l) (hf : tx.kind = .faucet)
    (hsep : ∀ t ∈ l, ({ txhash := env.fdp tx.hash, index := 0 } : CoinID) ∉ t.inputs)
    (hp : (st.coins.getCoin { txhash := env.fdp tx.hash, index := 0 }).isSome) :
    Outcome.foldlM' (cnsStep env t) st l ≠ .ok r := by
  intro h
  obtain ⟨l₁, l₂, rfl⟩ := List.append_of_mem htx
  obtain ⟨mid, mid', h1, h2, _⟩ := cnsFold_split h
  have hmid := cnsFold_keep h1 (fun t ht => hsep t (by simp [ht])) hp
  have hnone := (cnsStep_faucet h2 hf).2.1
  rw [hmid] at hnone
  rw [hnone] at hp
  simp at hp

/-- after a successful fold the marker of every non-grandfathered faucet member is present -/
theorem cnsFold_marker {env : Env} {t : Bool} {st r : State} {l : List Tx} {tx : Tx}
    (h : Outcome.foldlM' (cnsStep env t) st l = .ok r)
    (htx : tx ∈ l) (hf : tx.kind = .faucet) (hng : env.isGrandfathered tx.hash = false)
    (hsep : ∀ t ∈ l, ({ txhash := env.fdp tx.hash, index := 0 } : CoinID) ∉ t.inputs) :
    (r.coins.getCoin { txhash := env.fdp tx.hash, index := 0 }).isSome := by
  obtain ⟨l₁, l₂, rfl⟩ := List.append_of_mem htx
  obtain ⟨mid, mid', _, h2, h3⟩ := cnsFold_split h
  have hp := (cnsStep_faucet h2 hf).2.2 hng (hsep tx (by simp))
  rw [cnsFold_keep h3 (fun t ht => hsep t (by simp [ht])) hp]
  exact hp

/-! ### the `DuplicateTx` guard of the step: a block holds a hash at most once -/

theorem handleFaucetTx_txs {env : Env} {s s1 : State} {tx : Tx} (h : handleFaucetTx env s tx = .ok s1) :
    s1.txs = s.txs := by
  unfold handleFaucetTx at h
  simp only at h
  split at h
  · cases h
  · split at h
    · cases h
    · split at h <;> (cases h; rfl)

/-- `insertTx` never loses a hash (no sortedness needed) -/
theorem hash_mem_insertTx {l : List Tx} (tx : Tx) {h : Hash} (hm : ∃ t ∈ l, t.hash = h) :
    ∃ t ∈ State.insertTx l tx, t.hash = h := by
  induction l with
  | nil => obtain ⟨t, ht, _⟩ := hm; cases ht
  | cons a rest ih =>
    obtain ⟨t, ht, e⟩ := hm
    unfold State.insertTx
    split
    · next ha =>
      rcases List.mem_cons.mp ht with rfl | ht
      · exact ⟨tx, List.mem_cons_self, ha.symm.trans e⟩
      · exact ⟨t, List.mem_cons_of_mem _ ht, e⟩
    · split
      · exact ⟨t, List.mem_cons_of_mem _ ht, e⟩
      · rcases List.mem_cons.mp ht with rfl | ht
        · exact ⟨t, List.mem_cons_self, e⟩
        · obtain ⟨t', ht', e'⟩ := ih ⟨t, ht, e⟩
          exact ⟨t', List.mem_cons_of_mem _ ht', e'⟩

/-- a successful step: the hash was not in the list, and no hash is lost -/
theorem cnsStep_txs {env : Env} {t : Bool} {st st' : State} {tx : Tx} (h : cnsStep env t st tx = .ok st') :
    (∀ u ∈ st.txs, u.hash ≠ tx.hash) ∧ ∀ h, (∃ u ∈ st.txs, u.hash = h) → ∃ u ∈ st'.txs, u.hash = h := by
  unfold cnsStep at h
  split at h
  · cases h
  next hnd =>
  rw [Outcome.bind_eq_ok] at h
  obtain ⟨st1, h1, h⟩ := h
  rw [Outcome.bind_eq_ok] at h
  obtain ⟨coins2, _, h⟩ := h
  rw [Outcome.bind_eq_ok] at h
  obtain ⟨minFee, _, h⟩ := h
  have e1 : st1.txs = st.txs := by
    split at h1
    · exact handleFaucetTx_txs h1
    · cases h1; rfl
  refine ⟨fun u hu e => hnd (List.any_eq_true.mpr ⟨u, hu, by simpa using e⟩), ?_⟩
  split at h
  · cases h
  · cases h
    intro hh hm
    simp only [e1]
    exact hash_mem_insertTx tx hm

theorem cnsFold_txs {env : Env} {t : Bool} {st r : State} {l : List Tx}
    (h : Outcome.foldlM' (cnsStep env t) st l = .ok r) {hh : Hash} (hm : ∃ u ∈ st.txs, u.hash = hh) :
    ∃ u ∈ r.txs, u.hash = hh :=
  Outcome.foldlM'_inv (fun b => ∃ u ∈ b.txs, u.hash = hh) h hm
    (fun _ _ _ _ hb hs => (cnsStep_txs hs).2 hh hb)

/-- a transaction whose hash is in the transaction list at the start of the fold makes it fail -/
theorem cnsFold_dupHash {env : Env} {t : Bool} {st r : State} {l : List Tx} {tx : Tx}
    (htx : tx ∈ l) (hm : ∃ u ∈ st.txs, u.hash = tx.hash) :
    Outcome.foldlM' (cnsStep env t) st l ≠ .ok r := by
  intro h
  obtain ⟨l₁, l₂, rfl⟩ := List.append_of_mem htx
  obtain ⟨mid, mid', h1, h2, _⟩ := cnsFold_split h
  obtain ⟨u, hu, e⟩ := cnsFold_txs h1 hm
  exact (cnsStep_txs h2).1 u hu e

/-! ### `applyBatch` -/

theorem FaucetL.applyBatch_ok {env : Env} {s s' : State} {txs : List Tx} {fb : Header}
    (h : applyBatch env s txs fb = .ok s') :
    ∃ rel newStakes next, loadRelevantCoins s txs = .ok rel ∧ loadStakeInfo s txs = .ok newStakes ∧
      Outcome.forM' (fun tx => checkTxValidity env s (lastHeaderOf s fb) tx rel newStakes) txs = .ok () ∧
      createNextState env s txs rel s.tip906 = .ok next ∧ s'.coins = next.coins := by
  unfold applyBatch at h
  rw [Outcome.bind_eq_ok] at h
  obtain ⟨rel, h1, h⟩ := h
  rw [Outcome.bind_eq_ok] at h
  obtain ⟨ns, h2, h⟩ := h
  simp only at h
  rw [Outcome.bind_eq_ok] at h
  obtain ⟨u, h3, h⟩ := h
  rw [Outcome.bind_eq_ok] at h
  obtain ⟨sp, _, h⟩ := h
  rw [Outcome.bind_eq_ok] at h
  obtain ⟨next, h5, h⟩ := h
  cases h
  exact ⟨rel, ns, next, h1, h2, h3, h5, rfl⟩

/-- an element occurring at least twice: one occurrence, and another one after it -/
theorem twice_split {α} [DecidableEq α] {l : List α} {x : α} (h : (l.filter (· = x)).length ≥ 2) :
    ∃ l₁ l₂, l = l₁ ++ x :: l₂ ∧ x ∈ l₂ := by
  induction l with
  | nil => simp at h
  | cons a as ih =>
    by_cases hax : a = x
    · subst hax
      simp only [List.filter_cons, decide_true, if_true, List.length_cons, ge_iff_le] at h
      have hpos : 0 < (as.filter (· = a)).length := by omega
      obtain ⟨y, hy⟩ := List.exists_mem_of_length_pos hpos
      have := List.mem_filter.mp hy
      have hya : y = a := by simpa using this.2
      exact ⟨[], as, rfl, hya ▸ this.1⟩
    · simp only [List.filter_cons, hax, decide_false] at h
      obtain ⟨l₁, l₂, rfl, hm⟩ := ih h
      exact ⟨a :: l₁, l₂, rfl, hm⟩

/-! ### inputs of an accepted batch carry a covenant with the coin's hash -/

theorem FaucetL.mem_outputCoinsFromTx {tx : Tx} {h : Nat} {e : CoinID × CoinDataHeight}
    (he : e ∈ outputCoinsFromTx tx h) : e.1.txhash = tx.hash := by
  unfold outputCoinsFromTx at he
  rw [List.mem_filterMap] at he
  obtain ⟨⟨o, i⟩, _, hoi⟩ := he
  simp only [Option.ite_none_right_eq_some] at hoi
  obtain ⟨_, hoi⟩ := hoi
  cases hoi
  rfl

/-- every coin `load_relevant_coins` returns is created by the batch or read from the coin set -/
theorem loadRelevantCoins_get {s : State} {txs : List Tx} {rel : Relevant}
    (h : loadRelevantCoins s txs = .ok rel) {k : CoinID} {v : CoinDataHeight}
    (hg : AList.get rel k = some v) : (∃ t ∈ txs, k.txhash = t.hash) ∨ s.coins.getCoin k = some v := by
  unfold loadRelevantCoins at h
  split at h
  · cases h
  · simp only at h
    rw [Outcome.bind_eq_ok] at h
    obtain ⟨disk, hdisk, h⟩ := h
    split at h
    · cases h
      rcases AList.get_extend_some hg with hc | hd
      · left
        revert hc
        generalize hcr : List.foldl (fun (acc : Relevant) tx => AList.extend acc (outputCoinsFromTx tx s.height)) [] txs = cr
        have : ∀ k v, AList.get cr k = some v → ∃ t ∈ txs, k.txhash = t.hash := by
          rw [← hcr]
          refine foldl_inv (fun (acc : Relevant) => ∀ k v, AList.get acc k = some v → ∃ t ∈ txs, k.txhash = t.hash)
            _ _ _ ?_ ?_
          · intro k v hkv; simp [AList.get] at hkv
          · intro tx htx acc hacc k v hkv
            rcases AList.get_extend_some hkv with h1 | h1
            · exact hacc k v h1
            · exact ⟨tx, htx, mem_outputCoinsFromTx h1⟩
        exact this k v
      · right
        have hinv : ∀ e ∈ disk, s.coins.getCoin e.1 = some e.2 := by
          refine Outcome.foldlM'_inv (fun (acc : Relevant) => ∀ e ∈ acc, s.coins.getCoin e.1 = some e.2)
            hdisk ?_ ?_
          · intro e he; simp at he
          · intro inp _ acc acc' hacc hstep
            split at hstep
            · cases hstep; exact hacc
            · split at hstep
              · next c hc =>
                cases hstep
                intro e he
                simp only [AList.set, List.mem_cons] at he
                rcases he with rfl | he
                · exact hc
                · exact hacc e (AList.mem_del.mp he).1
              · cases hstep
        exact hinv (k, v) (List.mem_reverse.mp hd)
    · cases h

theorem findCovenant_none {tx : Tx} {h : Hash} (hn : h ∉ tx.covHashes) : tx.findCovenant h = none := by
  unfold Tx.findCovenant
  rw [Option.map_eq_none_iff, List.find?_eq_none]
  intro ⟨a, b⟩ hx
  rw [List.mem_reverse] at hx
  have := (List.of_mem_zip hx).1
  simp only [decide_eq_true_eq]
  intro hab; exact hn (hab ▸ this)

/-- an input of a valid transaction is a relevant coin whose covenant hash the transaction supplies -/
theorem checkTxValidity_input {env : Env} {s : State} {lh : Header} {tx : Tx} {rel : Relevant}
    {ns : AList Hash StakeDoc} (h : checkTxValidity env s lh tx rel ns = .ok ())
    {k : CoinID} (hk : k ∈ tx.inputs) :
    ∃ coin, AList.get rel k = some coin ∧ tx.findCovenant coin.coinData.covhash ≠ none := by
  unfold checkTxValidity at h
  simp only at h
  rw [Outcome.bind_eq_ok] at h
  obtain ⟨inCoins, hgo, _⟩ := h
  obtain ⟨i, hi⟩ := List.mem_iff_getElem?.mp hk
  have hmem : (k, i) ∈ tx.inputs.zipIdx := List.mem_zipIdx_iff_getElem?.mpr hi
  obtain ⟨b₁, b₂, hstep⟩ := Outcome.foldlM'_step_ok hgo (k, i) hmem
  simp only at hstep
  split at hstep
  · cases hstep
  · split at hstep
    · cases hstep
    · next coin hcoin =>
      refine ⟨coin, hcoin, ?_⟩
      intro hnone
      rw [Outcome.bind_eq_ok] at hstep
      obtain ⟨u, hv, _⟩ := hstep
      unfold validateTxScripts at hv
      rw [hnone] at hv
      cases hv

end Mel
