/- helper lemmas for the codec (C12) -/
import MelModel.VM.Codec
namespace Mel.VM
open Mel
end Mel.VM
