/- helper lemmas for the codec (C12) -/
import MelModel.VM.Codec
namespace Mel
open Mel

/-! ### big-endian byte strings -/

@[simp] theorem toBE_length (n v : Nat) : (toBE n v).length = n := by
  induction n generalizing v with
  | zero => simp [toBE]
  | succ n ih => simp [toBE, ih]

theorem fromBE_nil : fromBE [] = 0 := rfl

theorem fromBE_snoc (bs : Bytes) (b : UInt8) :
    fromBE (bs ++ [b]) = fromBE bs * 256 + b.toNat := by
  simp [fromBE, List.foldl_append]

theorem fromBE_toBE (n v : Nat) : fromBE (toBE n v) = v % 256 ^ n := by
  induction n generalizing v with
  | zero => simp [toBE, fromBE_nil, Nat.mod_one]
  | succ n ih =>
    rw [toBE, fromBE_snoc, ih, UInt8.toNat_ofNat']
    have e : 256 ^ (n + 1) = 256 * 256 ^ n := by rw [Nat.pow_succ, Nat.mul_comm]
    rw [e, Nat.mod_mul]
    omega

theorem snoc_induction {P : Bytes → Prop} (nil : P [])
    (append_singleton : ∀ l b, P l → P (l ++ [b])) (bs : Bytes) : P bs := by
  suffices h : ∀ l : Bytes, P l.reverse by simpa using h bs.reverse
  intro l
  induction l with
  | nil => simpa using nil
  | cons a l ih => simpa using append_singleton _ a ih

theorem toBE_fromBE (bs : Bytes) : toBE bs.length (fromBE bs) = bs := by
  induction bs using snoc_induction with
  | nil => simp [toBE]
  | append_singleton l b ih =>
    have hb : b.toNat < 256 := UInt8.toNat_lt b
    rw [List.length_append, List.length_singleton, toBE, fromBE_snoc]
    have h1 : (fromBE l * 256 + b.toNat) / 256 = fromBE l := by omega
    have h2 : (fromBE l * 256 + b.toNat) % 256 = b.toNat := by omega
    rw [h1, h2, ih, UInt8.ofNat_toNat]

theorem fromBE_lt (bs : Bytes) : fromBE bs < 256 ^ bs.length := by
  induction bs using snoc_induction with
  | nil => simp [fromBE_nil]
  | append_singleton l b ih =>
    have hb : b.toNat < 256 := UInt8.toNat_lt b
    rw [List.length_append, List.length_singleton, fromBE_snoc, Nat.pow_succ]
    omega

/-! ### significant length -/

theorem sigLen_zero : sigLen 0 = 0 := by
  rw [sigLen]; simp

theorem sigLen_pos (v : Nat) (h : v ≠ 0) : sigLen v = sigLen (v / 256) + 1 := by
  rw [sigLen]; simp [h]

theorem lt_pow_sigLen (v : Nat) : v < 256 ^ sigLen v := by
  induction v using Nat.strongRecOn with
  | _ v ih =>
    by_cases h : v = 0
    · subst h; simp [sigLen_zero]
    · rw [sigLen_pos v h, Nat.pow_succ]
      have := ih (v / 256) (by omega)
      omega

theorem sigLen_le_of_lt_pow (n v : Nat) (h : v < 256 ^ n) : sigLen v ≤ n := by
  induction n generalizing v with
  | zero =>
    have : v = 0 := by simpa using h
    subst this; simp [sigLen_zero]
  | succ n ih =>
    by_cases hv : v = 0
    · subst hv; simp [sigLen_zero]
    · rw [sigLen_pos v hv]
      rw [Nat.pow_succ] at h
      have := ih (v / 256) (by omega)
      omega

theorem lt_pow_of_sigLen_le (n v : Nat) (h : sigLen v ≤ n) : v < 256 ^ n :=
  Nat.lt_of_lt_of_le (lt_pow_sigLen v) (Nat.pow_le_pow_right (by decide) h)

theorem sigLen_le_iff (n v : Nat) : sigLen v ≤ n ↔ v < 256 ^ n :=
  ⟨lt_pow_of_sigLen_le n v, sigLen_le_of_lt_pow n v⟩

theorem pow_256_32 : 256 ^ 32 = 2 ^ 256 := by decide

theorem fromBE_toBE_sigLen (v : Nat) : fromBE (toBE (sigLen v) v) = v := by
  rw [fromBE_toBE, Nat.mod_eq_of_lt (lt_pow_sigLen v)]

theorem fromBE_toBE_32 (v : BitVec 256) : fromBE (toBE 32 v.toNat) = v.toNat := by
  rw [fromBE_toBE, pow_256_32, Nat.mod_eq_of_lt v.isLt]

theorem sigLen_u256_le (v : BitVec 256) : sigLen v.toNat ≤ 32 :=
  sigLen_le_of_lt_pow 32 _ (by rw [pow_256_32]; exact v.isLt)

end Mel

namespace Mel.VM
open Mel Mel.Gen

/-! ### u16 arguments -/

theorem u16BE_eq (n : UInt16) :
    u16BE n = [UInt8.ofNat (n.toNat / 256 % 256), UInt8.ofNat (n.toNat % 256)] := by
  simp [u16BE, toBE]

theorem u16arg_u16BE (n : UInt16) (rest : Bytes) : u16arg (u16BE n ++ rest) = some (n, rest) := by
  have hn : n.toNat < 65536 := UInt16.toNat_lt n
  rw [u16BE_eq]
  simp only [List.cons_append, List.nil_append, u16arg, UInt8.toNat_ofNat']
  have : n.toNat / 256 % 256 % 2 ^ 8 * 256 + n.toNat % 256 % 2 ^ 8 = n.toNat := by omega
  rw [this, UInt16.ofNat_toNat]

theorem u16arg_eq_some {bs : Bytes} {n : UInt16} {rest : Bytes}
    (h : u16arg bs = some (n, rest)) : bs = u16BE n ++ rest := by
  match bs, h with
  | a :: b :: r, h =>
    simp only [u16arg, Option.some.injEq, Prod.mk.injEq] at h
    obtain ⟨h1, h2⟩ := h
    subst h1 h2
    have ha : a.toNat < 256 := UInt8.toNat_lt a
    have hb : b.toNat < 256 := UInt8.toNat_lt b
    rw [u16BE_eq, UInt16.toNat_ofNat']
    have h1 : (a.toNat * 256 + b.toNat) % 2 ^ 16 / 256 % 256 = a.toNat := by omega
    have h2 : (a.toNat * 256 + b.toNat) % 2 ^ 16 % 256 = b.toNat := by omega
    rw [h1, h2, UInt8.ofNat_toNat, UInt8.ofNat_toNat]
    rfl

/-! ### takeExact -/

theorem takeExact_append (a rest : Bytes) : takeExact a.length (a ++ rest) = some (a, rest) := by
  simp [takeExact]

theorem takeExact_eq_some {n : Nat} {bs a rest : Bytes} (h : takeExact n bs = some (a, rest)) :
    bs = a ++ rest ∧ a.length = n := by
  unfold takeExact at h
  split at h
  · simp only [Option.some.injEq, Prod.mk.injEq] at h
    obtain ⟨h1, h2⟩ := h
    subst h1 h2
    refine ⟨(List.take_append_drop n bs).symm, ?_⟩
    rw [List.length_take]; omega
  · cases h

/-! ### single instruction -/

/-- `simp` with `decodeOp` and every generated opcode constant unfolded, so that all byte
    comparisons in the `decodeOp` if-chain are decided on the literal values of the table. -/
macro "codec_simp" "[" ls:Lean.Parser.Tactic.simpLemma,* "]" : tactic =>
  `(tactic| simp [decodeOp, OPCODE_NOOP, OPCODE_ADD, OPCODE_SUB, OPCODE_MUL, OPCODE_DIV, OPCODE_REM, OPCODE_EXP, OPCODE_AND, OPCODE_OR, OPCODE_XOR, OPCODE_NOT, OPCODE_EQL, OPCODE_LT, OPCODE_GT, OPCODE_SHL, OPCODE_SHR, OPCODE_HASH, OPCODE_SIGEOK, OPCODE_LOAD, OPCODE_STORE, OPCODE_LOADIMM, OPCODE_STOREIMM, OPCODE_VREF, OPCODE_VAPPEND, OPCODE_VEMPTY, OPCODE_VLENGTH, OPCODE_VSLICE, OPCODE_VSET, OPCODE_VPUSH, OPCODE_VCONS, OPCODE_BREF, OPCODE_BAPPEND, OPCODE_BEMPTY, OPCODE_BLENGTH, OPCODE_BSLICE, OPCODE_BSET, OPCODE_BPUSH, OPCODE_BCONS, OPCODE_JMP, OPCODE_BEZ, OPCODE_BNZ, OPCODE_LOOP, OPCODE_ITOB, OPCODE_BTOI, OPCODE_TYPEQ, OPCODE_PUSHB, OPCODE_PUSHI, OPCODE_PUSHIC, OPCODE_DUP, encNoop, encAdd, encSub, encMul, encDiv, encRem, encExp, encAnd, encOr, encXor, encNot, encEql, encLt, encGt, encShl, encShr, encHash, encSigEOk, encStore, encLoad, encStoreImm, encLoadImm, encVRef, encVAppend, encVEmpty, encVLength, encVSlice, encVSet, encVPush, encVCons, encBRef, encBAppend, encBEmpty, encBLength, encBSlice, encBSet, encBPush, encBCons, encBez, encBnz, encJmp, encLoop, encItoB, encBtoI, encTypeQ, encPushB, encPushI, encPushIC, encDup, decNoop, decAdd, decSub, decMul, decDiv, decRem, decExp, decAnd, decOr, decXor, decNot, decEql, decLt, decGt, decShl, decShr, decHash, decSigEOk, decStore, decLoad, decStoreImm, decLoadImm, decVRef, decVAppend, decVEmpty, decVLength, decVSlice, decVSet, decVPush, decVCons, decBRef, decBAppend, decBEmpty, decBLength, decBSlice, decBSet, decBPush, decBCons, decBez, decBnz, decJmp, decLoop, decItoB, decBtoI, decTypeQ, decPushB, decPushI, decPushIC, decDup, $ls,*])

/-- decoding an encoded instruction (opcode bytes compared by unfolding the generated table) -/
theorem decodeOp_encodeOp (op : Op) (enc rest : Bytes) (h : encodeOp op = some enc) :
    decodeOp (enc ++ rest) = some (op, rest) := by
  cases op
  case pushb bs =>
    simp [encodeOp] at h
    obtain ⟨h1, h⟩ := h
    subst h
    have : (UInt8.ofNat bs.length).toNat = bs.length := by
      rw [UInt8.toNat_ofNat']; omega
    codec_simp [this, takeExact_append]
  case pushi v =>
    simp [encodeOp] at h; subst h
    have := takeExact_append (toBE 32 v.toNat) rest
    rw [toBE_length] at this
    codec_simp [this, fromBE_toBE_32]
  case pushic v =>
    simp [encodeOp] at h; subst h
    have hle := sigLen_u256_le v
    have h1 : (UInt8.ofNat (sigLen v.toNat)).toNat = sigLen v.toNat := by
      rw [UInt8.toNat_ofNat']; omega
    have := takeExact_append (toBE (sigLen v.toNat) v.toNat) rest
    rw [toBE_length] at this
    codec_simp [h1, hle, this, fromBE_toBE_sigLen]
  all_goals (simp [encodeOp] at h; subst h)
  all_goals (codec_simp [u16arg_u16BE]; done)

theorem ite_some_elim {c : Prop} [Decidable c] {α : Type} {a b : Option α} {x : α} {P : Prop}
    (h1 : c → a = some x → P) (h2 : ¬c → b = some x → P) :
    (if c then a else b) = some x → P := by
  intro h; split at h
  · exact h1 ‹_› h
  · exact h2 ‹_› h

set_option hygiene false in
macro "peel_ite" : tactic => `(tactic| (revert h; apply ite_some_elim <;> intro hc h))

/-- whatever decodes is the canonical encoding of its result -/
theorem encodeOp_decodeOp (bs rest : Bytes) (op : Op) (h : decodeOp bs = some (op, rest)) :
    ∃ enc, encodeOp op = some enc ∧ bs = enc ++ rest := by
  match bs, h with
  | b :: r, h =>
  simp only [decodeOp] at h
  repeat' peel_ite
  all_goals try (simp only [Option.some.injEq, Prod.mk.injEq] at h; obtain ⟨rfl, rfl⟩ := h; subst_vars; exact ⟨_, rfl, rfl⟩)
  all_goals try (
    simp only [Option.map_eq_some_iff, Prod.exists, Prod.mk.injEq] at h
    obtain ⟨n, r', hu, rfl, rfl⟩ := h
    have := u16arg_eq_some hu
    subst_vars
    exact ⟨_, rfl, rfl⟩)
  · -- exp
    split at h
    · simp only [Option.some.injEq, Prod.mk.injEq] at h; obtain ⟨rfl, rfl⟩ := h
      subst_vars; exact ⟨_, rfl, rfl⟩
    · cases h
  · -- loop
    split at h
    · rename_i it r' hu
      simp only [Option.map_eq_some_iff, Prod.exists, Prod.mk.injEq] at h
      obtain ⟨n, r'', hu', rfl, rfl⟩ := h
      have h1 := u16arg_eq_some hu
      have h2 := u16arg_eq_some hu'
      subst_vars
      exact ⟨_, rfl, by simp [encLoop, decLoop]⟩
    · cases h
  · -- pushb
    split at h
    · rename_i len r'
      simp only [Option.map_eq_some_iff, Prod.exists, Prod.mk.injEq] at h
      obtain ⟨a, r'', ht, rfl, rfl⟩ := h
      obtain ⟨h1, h2⟩ := takeExact_eq_some ht
      have hl : len.toNat < 256 := UInt8.toNat_lt len
      subst_vars
      refine ⟨encPushB :: UInt8.ofNat a.length :: a, ?_, ?_⟩
      · simp [encodeOp]; omega
      · rw [h2, UInt8.ofNat_toNat]; rfl
    · cases h
  · -- pushi
    simp only [Option.map_eq_some_iff, Prod.exists, Prod.mk.injEq] at h
    obtain ⟨a, r'', ht, rfl, rfl⟩ := h
    obtain ⟨h1, h2⟩ := takeExact_eq_some ht
    subst_vars
    refine ⟨encPushI :: a, ?_, rfl⟩
    have hlt := fromBE_lt a
    rw [h2, pow_256_32] at hlt
    simp only [encodeOp, BitVec.toNat_ofNat, Nat.mod_eq_of_lt hlt]
    rw [← h2, toBE_fromBE]
  · -- pushic
    split at h
    · rename_i len r'
      split at h
      · cases h
      · rename_i hle
        split at h
        · rename_i a r'' ht
          split at h
          · rename_i hs
            simp only [Option.some.injEq, Prod.mk.injEq] at h; obtain ⟨rfl, rfl⟩ := h
            obtain ⟨h1, h2⟩ := takeExact_eq_some ht
            subst_vars
            have hlt : fromBE a < 2 ^ 256 := by
              rw [← pow_256_32]
              exact lt_pow_of_sigLen_le 32 _ (by omega)
            refine ⟨encPushIC :: len :: a, ?_, rfl⟩
            simp only [encodeOp, BitVec.toNat_ofNat, Nat.mod_eq_of_lt hlt]
            rw [hs, UInt8.ofNat_toNat, ← h2, toBE_fromBE]
          · cases h
        · cases h
    · cases h
  · cases h

/-! ### programs -/

theorem encodeOp_ne_nil {op : Op} {enc : Bytes} (h : encodeOp op = some enc) : enc ≠ [] := by
  cases op
  case pushb bs =>
    simp [encodeOp] at h
    obtain ⟨_, rfl⟩ := h
    simp
  all_goals (simp [encodeOp] at h; subst h; simp)

theorem decodeOp_length_lt {bs rest : Bytes} {op : Op} (h : decodeOp bs = some (op, rest)) :
    rest.length < bs.length := by
  obtain ⟨enc, he, rfl⟩ := encodeOp_decodeOp bs rest op h
  have := encodeOp_ne_nil he
  cases enc with
  | nil => exact absurd rfl this
  | cons a l => simp; omega

theorem decodeFuel_nil (fuel : Nat) : decodeFuel fuel [] = some [] := by
  cases fuel <;> rfl

theorem decodeFuel_succ_cons (fuel : Nat) (b : UInt8) (r : Bytes) :
    decodeFuel (fuel + 1) (b :: r) =
      match decodeOp (b :: r) with
      | none => none
      | some (op, rest) => (decodeFuel fuel rest).map (op :: ·) := rfl

theorem encodeAll_cons (op : Op) (ops : List Op) :
    encodeAll (op :: ops) = (encodeOp op).bind fun a => (encodeAll ops).map fun b => a ++ b := by
  cases h1 : encodeOp op <;> cases h2 : encodeAll ops <;> simp [encodeAll, h1, h2]

theorem encodeAll_cons_eq_some {op : Op} {ops : List Op} {bs : Bytes} :
    encodeAll (op :: ops) = some bs ↔
      ∃ a b, encodeOp op = some a ∧ encodeAll ops = some b ∧ bs = a ++ b := by
  rw [encodeAll_cons]
  cases h1 : encodeOp op <;> cases h2 : encodeAll ops <;> simp [eq_comm]

theorem encodeAll_of_decodeFuel (fuel : Nat) (bs : Bytes) (ops : List Op)
    (h : decodeFuel fuel bs = some ops) : encodeAll ops = some bs := by
  induction fuel generalizing bs ops with
  | zero =>
    cases bs with
    | nil => rw [decodeFuel_nil] at h; cases h; rfl
    | cons b r => cases h
  | succ fuel ih =>
    cases bs with
    | nil => rw [decodeFuel_nil] at h; cases h; rfl
    | cons b r =>
      rw [decodeFuel_succ_cons] at h
      split at h
      · cases h
      · rename_i op rest hd
        simp only [Option.map_eq_some_iff] at h
        obtain ⟨ops', hf, rfl⟩ := h
        obtain ⟨enc, he, hb⟩ := encodeOp_decodeOp _ _ _ hd
        rw [encodeAll_cons_eq_some]
        exact ⟨enc, rest, he, ih _ _ hf, hb⟩

theorem decodeFuel_of_encodeAll (ops : List Op) (bs : Bytes) (h : encodeAll ops = some bs)
    (fuel : Nat) (hf : ops.length ≤ fuel) : decodeFuel fuel bs = some ops := by
  induction ops generalizing bs fuel with
  | nil =>
    simp [encodeAll] at h; subst h; exact decodeFuel_nil fuel
  | cons op ops ih =>
    rw [encodeAll_cons_eq_some] at h
    obtain ⟨a, b, ha, hb, rfl⟩ := h
    have hne := encodeOp_ne_nil ha
    have hd := decodeOp_encodeOp op a b ha
    cases fuel with
    | zero => simp at hf
    | succ fuel =>
      cases a with
      | nil => exact absurd rfl hne
      | cons x a =>
        rw [List.cons_append, decodeFuel_succ_cons, ← List.cons_append, hd]
        simp only [List.length_cons, Nat.add_le_add_iff_right] at hf
        simp [ih b hb fuel hf]

theorem encodeAll_length {ops : List Op} {bs : Bytes} (h : encodeAll ops = some bs) :
    ops.length ≤ bs.length := by
  induction ops generalizing bs with
  | nil => simp
  | cons op ops ih =>
    rw [encodeAll_cons_eq_some] at h
    obtain ⟨a, b, ha, hb, rfl⟩ := h
    have hne := encodeOp_ne_nil ha
    have := ih hb
    cases a with
    | nil => exact absurd rfl hne
    | cons x a => simp; omega

theorem encodeOp_isSome_iff (op : Op) :
    (encodeOp op).isSome ↔ ∀ bs, op = Op.pushb bs → bs.length ≤ 255 := by
  cases op
  case pushb bs =>
    simp only [encodeOp]
    split <;> simp <;> omega
  all_goals simp [encodeOp]


end Mel.VM
