/- helper lemmas for C05 -/
import MelModel.ApplyTx
import MelModel.Lemmas.Counts
namespace Mel
end Mel
