/- helper lemmas for C05 -/
import MelModel.ApplyTx
import MelModel.Lemmas.Counts
namespace Mel
open Mel.Gen

namespace Fees

/-! ### generic facts -/

theorem bind_ok {α β} {x : Outcome α} {f : α → Outcome β} {b : β}
    (h : x.bind f = .ok b) : ∃ a, x = .ok a ∧ f a = .ok b := by
  cases x with
  | ok a => exact ⟨a, rfl, h⟩
  | reject e => cases h
  | crash c => cases h

theorem min_min_add (a b c M : Nat) : min (min (a + b) M + c) M = min (a + b + c) M := by
  simp only [Nat.min_def]
  split <;> split <;> (try split) <;> omega

theorem sum_map_add {α} (f g : α → Nat) (l : List α) :
    (l.map f).sum + (l.map g).sum = (l.map fun x => f x + g x).sum := by
  induction l with
  | nil => rfl
  | cons a as ih => simp only [List.map_cons, List.sum_cons, ← ih]; omega

theorem sum_map_congr {α} (f g : α → Nat) (l : List α) (h : ∀ x ∈ l, f x = g x) :
    (l.map f).sum = (l.map g).sum := by
  induction l with
  | nil => rfl
  | cons a as ih =>
    simp only [List.map_cons, List.sum_cons]
    rw [h a (List.mem_cons_self), ih (fun x hx => h x (List.mem_cons_of_mem _ hx))]

/-! ### the coin map after an insertion -/

theorem insertCoin_coins (m : CoinMap) (id : CoinID) (d : CoinDataHeight) (t : Bool) :
    (m.insertCoin id d t).coins = m.coins.set id d := by
  unfold CoinMap.insertCoin
  simp only
  split <;> rfl

theorem getCoin_insertCoin_self (m : CoinMap) (id : CoinID) (d : CoinDataHeight) (t : Bool) :
    (m.insertCoin id d t).getCoin id = some d := by
  simp [CoinMap.getCoin, insertCoin_coins, AList.get_set_self]

theorem getCoin_insertCoin_ne (m : CoinMap) {id id' : CoinID} (d : CoinDataHeight) (t : Bool)
    (hne : id' ≠ id) : (m.insertCoin id d t).getCoin id' = m.getCoin id' := by
  simp [CoinMap.getCoin, insertCoin_coins, AList.get_set_ne _ _ hne]

/-! ### the fee step of `createNextState` -/

/-- the minimum fee at a multiplier, 0 if the weight computation crashes -/
def feeOf (m : Nat) (tx : Tx) : Nat := match tx.baseFee m with | .ok f => f | _ => 0

theorem feeOf_of_ok {m : Nat} {tx : Tx} {f : Nat} (h : tx.baseFee m = .ok f) : feeOf m tx = f := by
  simp [feeOf, h]

/-- the per-transaction step of `createNextState` -/
def feeStep (env : Env) (tip906 : Bool) (st : State) (tx : Tx) : Outcome State :=
  if st.txs.any (fun t => t.hash = tx.hash) then .reject .duplicateTx else
  (if tx.kind = .faucet then handleFaucetTx env st tx else .ok st).bind fun st1 =>
  (Outcome.foldlM' (fun (coins : CoinMap) id => coins.removeCoin id tip906) st1.coins tx.inputs).bind fun coins2 =>
  (tx.baseFee st1.feeMultiplier).bind fun minFee =>
    if tx.fee < minFee then .reject .insufficientFees
    else .ok { st1 with coins := coins2,
                        tips := satAdd128 st1.tips (tx.fee - minFee),
                        feePool := satAdd128 st1.feePool minFee,
                        txs := State.insertTx st1.txs tx }

theorem handleFaucetTx_ok {env : Env} {s s1 : State} {tx : Tx} (h : handleFaucetTx env s tx = .ok s1) :
    s1.feeMultiplier = s.feeMultiplier ∧ s1.feePool = s.feePool ∧ s1.tips = s.tips := by
  unfold handleFaucetTx at h
  simp only at h
  split at h
  · cases h
  · split at h
    · cases h
    · split at h <;> (cases h; exact ⟨rfl, rfl, rfl⟩)

theorem feeStep_ok {env : Env} {tip906 : Bool} {st st' : State} {tx : Tx}
    (h : feeStep env tip906 st tx = .ok st') :
    ∃ f, tx.baseFee st.feeMultiplier = .ok f ∧ f ≤ tx.fee ∧
      st'.feeMultiplier = st.feeMultiplier ∧
      st'.feePool = satAdd128 st.feePool f ∧
      st'.tips = satAdd128 st.tips (tx.fee - f) := by
  unfold feeStep at h
  split at h
  · cases h
  obtain ⟨st1, h1, h⟩ := bind_ok h
  obtain ⟨coins2, _, h⟩ := bind_ok h
  obtain ⟨f, hf, h⟩ := bind_ok h
  have hst1 : st1.feeMultiplier = st.feeMultiplier ∧ st1.feePool = st.feePool ∧ st1.tips = st.tips := by
    split at h1
    · exact handleFaucetTx_ok h1
    · cases h1; exact ⟨rfl, rfl, rfl⟩
  obtain ⟨e1, e2, e3⟩ := hst1
  split at h
  · cases h
  · next hlt =>
    cases h
    refine ⟨f, ?_, Nat.le_of_not_lt hlt, e1, ?_, ?_⟩
    · rw [← e1]; exact hf
    · simp only [e2]
    · simp only [e3]

/-- the fee fold, started from any state -/
theorem feeFold (env : Env) (tip906 : Bool) (m : Nat) :
    ∀ (txs : List Tx) (st0 st : State), st0.feeMultiplier = m →
      st0.feePool ≤ U128_MAX → st0.tips ≤ U128_MAX →
      Outcome.foldlM' (feeStep env tip906) st0 txs = .ok st →
      st.feeMultiplier = m ∧
      st.feePool = min (st0.feePool + (txs.map (feeOf m)).sum) U128_MAX ∧
      st.tips = min (st0.tips + (txs.map fun tx => tx.fee - feeOf m tx).sum) U128_MAX ∧
      ∀ tx ∈ txs, ∃ f, tx.baseFee m = .ok f ∧ f ≤ tx.fee := by
  intro txs
  induction txs with
  | nil =>
    intro st0 st hm hp ht h
    simp only [Outcome.foldlM'] at h
    cases h
    refine ⟨hm, ?_, ?_, ?_⟩
    · simp only [List.map_nil, List.sum_nil, Nat.add_zero]; exact (Nat.min_eq_left hp).symm
    · simp only [List.map_nil, List.sum_nil, Nat.add_zero]; exact (Nat.min_eq_left ht).symm
    · intro tx htx; cases htx
  | cons tx rest ih =>
    intro st0 st hm hp ht h
    simp only [Outcome.foldlM'] at h
    split at h
    · next st1 hstep =>
      obtain ⟨f, hf, hle, e1, e2, e3⟩ := feeStep_ok hstep
      rw [hm] at hf
      have hfo : feeOf m tx = f := feeOf_of_ok hf
      have hp1 : st1.feePool ≤ U128_MAX := by rw [e2]; exact Nat.min_le_right _ _
      have ht1 : st1.tips ≤ U128_MAX := by rw [e3]; exact Nat.min_le_right _ _
      obtain ⟨i1, i2, i3, i4⟩ := ih st1 st (e1.trans hm) hp1 ht1 h
      refine ⟨i1, ?_, ?_, ?_⟩
      · rw [i2, e2, satAdd128, min_min_add]
        simp only [List.map_cons, List.sum_cons, hfo, Nat.add_assoc]
      · rw [i3, e3, satAdd128, min_min_add]
        simp only [List.map_cons, List.sum_cons, hfo, Nat.add_assoc]
      · intro tx' htx'
        rcases List.mem_cons.mp htx' with rfl | hmem
        · exact ⟨f, hf, hle⟩
        · exact i4 tx' hmem
    · cases h
    · cases h

theorem createNextState_eq (env : Env) (s : State) (txs : List Tx) (rel : Relevant) (tip906 : Bool) :
    ∃ coins1, createNextState env s txs rel tip906 =
      Outcome.foldlM' (feeStep env tip906) { s with coins := coins1 } txs :=
  ⟨_, rfl⟩

theorem createNextState_fees {env : Env} {s next : State} {txs : List Tx} {rel : Relevant} {tip906 : Bool}
    (h : createNextState env s txs rel tip906 = .ok next)
    (hp : s.feePool ≤ U128_MAX) (ht : s.tips ≤ U128_MAX) :
    next.feeMultiplier = s.feeMultiplier ∧
    next.feePool = min (s.feePool + (txs.map (feeOf s.feeMultiplier)).sum) U128_MAX ∧
    next.tips = min (s.tips + (txs.map fun tx => tx.fee - feeOf s.feeMultiplier tx).sum) U128_MAX := by
  obtain ⟨coins1, heq⟩ := createNextState_eq env s txs rel tip906
  rw [heq] at h
  obtain ⟨i1, i2, i3, _⟩ := feeFold env tip906 s.feeMultiplier txs { s with coins := coins1 } next rfl hp ht h
  exact ⟨i1, i2, i3⟩

/-- the threshold part needs no bound on the accumulators -/
theorem feeFold_threshold (env : Env) (tip906 : Bool) (m : Nat) :
    ∀ (txs : List Tx) (st0 st : State), st0.feeMultiplier = m →
      Outcome.foldlM' (feeStep env tip906) st0 txs = .ok st →
      ∀ tx ∈ txs, ∃ f, tx.baseFee m = .ok f ∧ f ≤ tx.fee := by
  intro txs
  induction txs with
  | nil => intro _ _ _ _ tx htx; cases htx
  | cons tx rest ih =>
    intro st0 st hm h
    simp only [Outcome.foldlM'] at h
    split at h
    · next st1 hstep =>
      obtain ⟨f, hf, hle, e1, _, _⟩ := feeStep_ok hstep
      rw [hm] at hf
      intro tx' htx'
      rcases List.mem_cons.mp htx' with rfl | hmem
      · exact ⟨f, hf, hle⟩
      · exact ih st1 st (e1.trans hm) h tx' hmem
    · cases h
    · cases h

theorem createNextState_threshold {env : Env} {s next : State} {txs : List Tx} {rel : Relevant} {tip906 : Bool}
    (h : createNextState env s txs rel tip906 = .ok next) :
    ∀ tx ∈ txs, ∃ f, tx.baseFee s.feeMultiplier = .ok f ∧ f ≤ tx.fee := by
  obtain ⟨coins1, heq⟩ := createNextState_eq env s txs rel tip906
  rw [heq] at h
  exact feeFold_threshold env tip906 s.feeMultiplier txs { s with coins := coins1 } next rfl h

/-- what an accepted batch says about its `createNextState` -/
theorem applyBatch_next {env : Env} {s s' : State} {txs : List Tx} {fb : Header}
    (h : applyBatch env s txs fb = .ok s') :
    ∃ rel next, createNextState env s txs rel s.tip906 = .ok next ∧
      s'.feePool = next.feePool ∧ s'.tips = next.tips ∧ s'.feeMultiplier = next.feeMultiplier := by
  unfold applyBatch at h
  obtain ⟨rel, _, h⟩ := bind_ok h
  obtain ⟨newStakes, _, h⟩ := bind_ok h
  simp only at h
  obtain ⟨_, _, h⟩ := bind_ok h
  obtain ⟨newSpeed, _, h⟩ := bind_ok h
  obtain ⟨next, hn, h⟩ := bind_ok h
  cases h
  exact ⟨rel, next, hn, rfl, rfl, rfl⟩

end Fees
end Mel
