/- helper lemmas for the serialisation of transactions (MelModel/Stdcode.lean: `encodeTx`); used by
   MelModel/Props/CodecTx.lean.  Every component of the encoding is *cancellable*: from
   `enc a ++ r = enc b ++ r'` follow `a = b` and `r = r'`; injectivity and prefix-freeness are both instances. -/
import MelModel.Stdcode
import MelModel.Lemmas.CodecL
namespace Mel.Stdcode
open Mel

/-! ### lengths -/

theorem putBytes_length (b : Bytes) : (putBytes b).length = bytesLen b := by
  unfold putBytes bytesLen
  rw [List.length_append, putVarint_length]

theorem encodeCoinID_length (c : CoinID) (h : c.txhash.length = 32) : (encodeCoinID c).length = 33 := by
  unfold encodeCoinID
  rw [List.length_append, h]
  rfl

theorem encodeCoinData_length (c : CoinData) (h : c.covhash.length = 32) :
    (encodeCoinData c).length = coinDataLen c := by
  unfold encodeCoinData coinDataLen
  simp only [List.length_append, putBytes_length, putVarint_length, h]
  unfold bytesLen
  omega

theorem length_flatMap_of {α : Type} (f : α → Bytes) (g : α → Nat) (l : List α)
    (h : ∀ a ∈ l, (f a).length = g a) : (l.flatMap f).length = (l.map g).sum := by
  induction l with
  | nil => rfl
  | cons a l ih =>
    rw [List.flatMap_cons, List.length_append, List.map_cons, List.sum_cons, h a (List.mem_cons_self ..),
      ih (fun b hb => h b (List.mem_cons_of_mem _ hb))]

theorem sum_map_const {α : Type} (k : Nat) (l : List α) : (l.map fun _ => k).sum = k * l.length := by
  induction l with
  | nil => rfl
  | cons a l ih =>
    rw [List.map_cons, List.sum_cons, ih, List.length_cons, Nat.mul_succ, Nat.add_comm]

theorem encodeList_length {α : Type} (f : α → Bytes) (g : α → Nat) (l : List α)
    (h : ∀ a ∈ l, (f a).length = g a) : (encodeList f l).length = varintLen l.length + (l.map g).sum := by
  unfold encodeList
  rw [List.length_append, putVarint_length, length_flatMap_of f g l h]

theorem encodeTx_length (tx : Tx) (hi : ∀ c ∈ tx.inputs, c.txhash.length = 32)
    (ho : ∀ o ∈ tx.outputs, o.covhash.length = 32) : (encodeTx tx).length = txLen tx := by
  unfold encodeTx txLen
  simp only [List.length_append, putBytes_length, putVarint_length]
  rw [encodeList_length encodeCoinID (fun _ => 33) tx.inputs (fun c hc => encodeCoinID_length c (hi c hc)),
    encodeList_length encodeCoinData coinDataLen tx.outputs (fun o h => encodeCoinData_length o (ho o h)),
    encodeList_length putBytes bytesLen tx.covenants (fun b _ => putBytes_length b),
    encodeList_length putBytes bytesLen tx.sigs (fun b _ => putBytes_length b), sum_map_const]
  rfl

/-! ### cancellation, component by component -/

theorem putVarint_cancel {n m : Nat} {r r' : Bytes} (hn : n < 2 ^ 128) (hm : m < 2 ^ 128)
    (h : putVarint n ++ r = putVarint m ++ r') : n = m ∧ r = r' := by
  have h1 := varint128_roundtrip n hn r
  have h2 := varint128_roundtrip m hm r'
  rw [h, h2] at h1
  injection h1 with h1
  injection h1 with h1 h2
  exact ⟨h1.symm, h2.symm⟩

theorem fixed_cancel {a b r r' : Bytes} (hl : a.length = b.length) (h : a ++ r = b ++ r') : a = b ∧ r = r' :=
  List.append_inj h hl

theorem putBytes_cancel {a b r r' : Bytes} (ha : a.length < 2 ^ 64) (hb : b.length < 2 ^ 64)
    (h : putBytes a ++ r = putBytes b ++ r') : a = b ∧ r = r' := by
  unfold putBytes at h
  rw [List.append_assoc, List.append_assoc] at h
  obtain ⟨hl, h⟩ := putVarint_cancel (by omega) (by omega) h
  exact List.append_inj h hl

theorem byte_ofNat_inj {n m : Nat} (hn : n < 256) (hm : m < 256) (h : UInt8.ofNat n = UInt8.ofNat m) : n = m := by
  have := congrArg UInt8.toNat h
  rw [UInt8.toNat_ofNat', UInt8.toNat_ofNat'] at this
  omega

theorem encodeCoinID_cancel {a b : CoinID} {r r' : Bytes} (ha : a.txhash.length = 32 ∧ a.index < 256)
    (hb : b.txhash.length = 32 ∧ b.index < 256) (h : encodeCoinID a ++ r = encodeCoinID b ++ r') :
    a = b ∧ r = r' := by
  unfold encodeCoinID at h
  rw [List.append_assoc, List.append_assoc] at h
  obtain ⟨h1, h2⟩ := fixed_cancel (by omega) h
  obtain ⟨h2, h3⟩ := fixed_cancel (by rfl) h2
  injection h2 with h2 _
  have h4 := byte_ofNat_inj ha.2 hb.2 h2
  refine ⟨?_, h3⟩
  cases a; cases b
  simp only at h1 h4
  subst h1; subst h4; rfl

theorem denom_bytes_length (d : Denom) (h : DenomOk d) : d.toBytes.length ≤ 32 := by
  cases d with
  | custom x => exact Nat.le_of_eq h
  | _ => simp [Denom.toBytes]

theorem denom_bytes_injective (d d' : Denom) (h : DenomOk d) (h' : DenomOk d') (he : d.toBytes = d'.toBytes) :
    d = d' := by
  cases d <;> cases d' <;> simp only [Denom.toBytes, DenomOk] at h h' he <;> first
    | rfl
    | (subst he; rfl)
    | (subst he; simp at h')
    | (subst he; simp at h)
    | simp at he

theorem encodeCoinData_cancel {a b : CoinData} {r r' : Bytes}
    (ha : a.covhash.length = 32 ∧ a.value < 2 ^ 128 ∧ DenomOk a.denom ∧ a.additionalData.length < 2 ^ 64)
    (hb : b.covhash.length = 32 ∧ b.value < 2 ^ 128 ∧ DenomOk b.denom ∧ b.additionalData.length < 2 ^ 64)
    (h : encodeCoinData a ++ r = encodeCoinData b ++ r') : a = b ∧ r = r' := by
  unfold encodeCoinData at h
  simp only [List.append_assoc] at h
  obtain ⟨h1, h⟩ := fixed_cancel (by omega) h
  obtain ⟨h2, h⟩ := putVarint_cancel ha.2.1 hb.2.1 h
  have la := denom_bytes_length a.denom ha.2.2.1
  have lb := denom_bytes_length b.denom hb.2.2.1
  obtain ⟨h3, h⟩ := putBytes_cancel (by omega) (by omega) h
  obtain ⟨h4, h⟩ := putBytes_cancel ha.2.2.2 hb.2.2.2 h
  have hd := denom_bytes_injective _ _ ha.2.2.1 hb.2.2.1 h3
  refine ⟨?_, h⟩
  cases a; cases b
  simp only at h1 h2 hd h4
  subst h1; subst h2; subst hd; subst h4; rfl

theorem flatMap_cancel {α : Type} (f : α → Bytes) (P : α → Prop)
    (hf : ∀ a b s s', P a → P b → f a ++ s = f b ++ s' → a = b ∧ s = s') :
    ∀ (l l' : List α) (r r' : Bytes), l.length = l'.length → (∀ a ∈ l, P a) → (∀ a ∈ l', P a) →
      l.flatMap f ++ r = l'.flatMap f ++ r' → l = l' ∧ r = r' := by
  intro l
  induction l with
  | nil =>
    intro l' r r' hl _ _ h
    cases l' with
    | nil => exact ⟨rfl, h⟩
    | cons b l' => cases hl
  | cons a l ih =>
    intro l' r r' hl hp hp' h
    cases l' with
    | nil => cases hl
    | cons b l' =>
      rw [List.flatMap_cons, List.flatMap_cons, List.append_assoc, List.append_assoc] at h
      obtain ⟨h1, k⟩ := hf a b _ _ (hp a (List.mem_cons_self ..)) (hp' b (List.mem_cons_self ..)) h
      obtain ⟨h2, k'⟩ := ih l' r r' (by simpa using hl) (fun x hx => hp x (List.mem_cons_of_mem _ hx))
        (fun x hx => hp' x (List.mem_cons_of_mem _ hx)) k
      exact ⟨by rw [h1, h2], k'⟩

theorem encodeList_cancel {α : Type} (f : α → Bytes) (P : α → Prop)
    (hf : ∀ a b s s', P a → P b → f a ++ s = f b ++ s' → a = b ∧ s = s')
    {l l' : List α} {r r' : Bytes} (hl : l.length < 2 ^ 64) (hl' : l'.length < 2 ^ 64)
    (hp : ∀ a ∈ l, P a) (hp' : ∀ a ∈ l', P a) (h : encodeList f l ++ r = encodeList f l' ++ r') :
    l = l' ∧ r = r' := by
  unfold encodeList at h
  rw [List.append_assoc, List.append_assoc] at h
  obtain ⟨h1, h⟩ := putVarint_cancel (by omega) (by omega) h
  exact flatMap_cancel f P hf l l' r r' h1 hp hp' h

theorem kind_byte_inj (k k' : TxKind) (h : UInt8.ofNat k.toNat = UInt8.ofNat k'.toNat) : k = k' := by
  revert h
  cases k <;> cases k' <;> decide

/-! ### the whole transaction -/

theorem encodeTx_cancel (tx tx' : Tx) (h : TxOk tx) (h' : TxOk tx') (r r' : Bytes)
    (he : encodeTx tx ++ r = encodeTx tx' ++ r') :
    (tx.kind = tx'.kind ∧ tx.inputs = tx'.inputs ∧ tx.outputs = tx'.outputs ∧ tx.fee = tx'.fee ∧
      tx.covenants = tx'.covenants ∧ tx.data = tx'.data ∧ tx.sigs = tx'.sigs) ∧ r = r' := by
  unfold encodeTx at he
  simp only [List.append_assoc] at he
  obtain ⟨h1, he⟩ := fixed_cancel (by rfl) he
  injection h1 with h1 _
  have h1 := kind_byte_inj _ _ h1
  obtain ⟨h2, he⟩ := encodeList_cancel encodeCoinID (fun c => c.txhash.length = 32 ∧ c.index < 256)
    (fun a b s s' ha hb e => encodeCoinID_cancel ha hb e) h.counts.1 h'.counts.1 h.inputs h'.inputs he
  obtain ⟨h3, he⟩ := encodeList_cancel encodeCoinData
    (fun o => o.covhash.length = 32 ∧ o.value < 2 ^ 128 ∧ DenomOk o.denom ∧ o.additionalData.length < 2 ^ 64)
    (fun a b s s' ha hb e => encodeCoinData_cancel ha hb e) h.counts.2.1 h'.counts.2.1 h.outputs h'.outputs he
  obtain ⟨h4, he⟩ := putVarint_cancel h.fee h'.fee he
  obtain ⟨h5, he⟩ := encodeList_cancel putBytes (fun c => c.length < 2 ^ 64)
    (fun a b s s' ha hb e => putBytes_cancel ha hb e) h.counts.2.2.1 h'.counts.2.2.1 h.covenants h'.covenants he
  obtain ⟨h6, he⟩ := putBytes_cancel h.data h'.data he
  obtain ⟨h7, he⟩ := encodeList_cancel putBytes (fun c => c.length < 2 ^ 64)
    (fun a b s s' ha hb e => putBytes_cancel ha hb e) h.counts.2.2.2 h'.counts.2.2.2 h.sigs h'.sigs he
  exact ⟨⟨h1, h2, h3, h4, h5, h6, h7⟩, he⟩

theorem encodeTx_injective (tx tx' : Tx) (h : TxOk tx) (h' : TxOk tx') (he : encodeTx tx = encodeTx tx') :
    tx.kind = tx'.kind ∧ tx.inputs = tx'.inputs ∧ tx.outputs = tx'.outputs ∧ tx.fee = tx'.fee ∧
    tx.covenants = tx'.covenants ∧ tx.data = tx'.data ∧ tx.sigs = tx'.sigs :=
  (encodeTx_cancel tx tx' h h' [] [] (by rw [List.append_nil, List.append_nil]; exact he)).1

theorem encodeTx_prefix_free (tx tx' : Tx) (h : TxOk tx) (h' : TxOk tx') (t : Bytes)
    (he : encodeTx tx ++ t = encodeTx tx') : t = [] :=
  (encodeTx_cancel tx tx' h h' t [] (by rw [List.append_nil]; exact he)).2

theorem TxOk_clear_sigs {tx : Tx} (h : TxOk tx) : TxOk { tx with sigs := [] } :=
  ⟨h.inputs, h.outputs, h.fee, ⟨h.counts.1, h.counts.2.1, h.counts.2.2.1, (by decide : (0 : Nat) < 2 ^ 64)⟩, h.covenants,
    h.data, fun _ hc => nomatch hc⟩

theorem nosigs_injective (tx tx' : Tx) (h : TxOk tx) (h' : TxOk tx')
    (he : encodeTxNoSigs tx = encodeTxNoSigs tx') :
    tx.kind = tx'.kind ∧ tx.inputs = tx'.inputs ∧ tx.outputs = tx'.outputs ∧ tx.fee = tx'.fee ∧
    tx.covenants = tx'.covenants ∧ tx.data = tx'.data := by
  obtain ⟨h1, h2, h3, h4, h5, h6, _⟩ :=
    encodeTx_injective _ _ (TxOk_clear_sigs h) (TxOk_clear_sigs h') he
  exact ⟨h1, h2, h3, h4, h5, h6⟩

end Mel.Stdcode
