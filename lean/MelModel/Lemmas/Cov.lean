/- helper lemmas for C04 -/
import MelModel.ApplyTx
import MelModel.VM.Std
namespace Mel
end Mel
