/- helper lemmas for C04 -/
import MelModel.ApplyTx
import MelModel.VM.Std
namespace Mel
open Mel.Gen Mel.VM

/-! ## monadic folds -/

theorem forM'_ok_mem {α} (f : α → Outcome Unit) : ∀ (l : List α), Outcome.forM' f l = .ok () →
    ∀ a ∈ l, f a = .ok ()
  | [], _, a, ha => by simp at ha
  | x :: xs, h, a, ha => by
    rw [Outcome.forM'] at h
    cases hx : f x with
    | ok u =>
      rw [hx] at h
      simp only at h
      rcases List.mem_cons.mp ha with rfl | ha
      · exact hx
      · exact forM'_ok_mem f xs h a ha
    | reject e => rw [hx] at h; simp at h
    | crash s => rw [hx] at h; simp at h

theorem foldlM'_ok_zipIdx {α β} (f : β → α × Nat → Outcome β) :
    ∀ (l : List α) (k : Nat) (b b' : β), Outcome.foldlM' f b (l.zipIdx k) = .ok b' →
    ∀ i (hi : i < l.length), ∃ acc acc', f acc (l[i], k + i) = .ok acc'
  | [], _, _, _, _, i, hi => by simp at hi
  | x :: xs, k, b, b', h, i, hi => by
    rw [List.zipIdx_cons, Outcome.foldlM'] at h
    cases hx : f b (x, k) with
    | ok b1 =>
      rw [hx] at h
      simp only at h
      cases i with
      | zero => exact ⟨b, b1, by simpa using hx⟩
      | succ j =>
        have := foldlM'_ok_zipIdx f xs (k + 1) b1 b' h j (by simpa using hi)
        obtain ⟨acc, acc', hacc⟩ := this
        refine ⟨acc, acc', ?_⟩
        have e : k + (j + 1) = k + 1 + j := by omega
        simpa [e] using hacc
    | reject e => rw [hx] at h; simp at h
    | crash s => rw [hx] at h; simp at h

/-! ## the script gate -/

theorem validateTxScripts_ok_iff (env : Env) (i : Nat) (id : CoinID) (tx : Tx) (coin : CoinDataHeight)
    (lh : Header) :
    validateTxScripts env i id tx coin lh = .ok () ↔
    ∃ bytes ops v, tx.findCovenant coin.coinData.covhash = some bytes ∧ decodeAll bytes = some ops ∧
      execute env.vm ops tx
        (some { parentCoinID := id, parentCdh := coin, spenderIndex := i % 256, lastHeader := lh }) = some v ∧
      v.intoBool = true := by
  unfold validateTxScripts
  cases hf : tx.findCovenant coin.coinData.covhash with
  | none => simp
  | some bytes =>
    simp only [Option.some.injEq, exists_and_left, exists_eq_left']
    cases hd : decodeAll bytes with
    | none => simp
    | some ops =>
      simp only [Option.some.injEq, exists_eq_left']
      cases he : execute env.vm ops tx
          (some { parentCoinID := id, parentCdh := coin, spenderIndex := i % 256, lastHeader := lh }) with
      | none => simp
      | some v => cases hb : v.intoBool <;> simp [hb]

/-- an accepted transaction passed the script check of every one of its inputs, each at its own position -/
theorem checkTxValidity_ok_input (env : Env) (s : State) (lh : Header) (tx : Tx) (rel : Relevant)
    (newStakes : AList Hash StakeDoc) (h : checkTxValidity env s lh tx rel newStakes = .ok ())
    (i : Nat) (hi : i < tx.inputs.length) :
    ∃ coin, rel.get tx.inputs[i] = some coin ∧
      validateTxScripts env i tx.inputs[i] tx coin lh = .ok () := by
  unfold checkTxValidity at h
  simp only at h
  generalize hf : (fun (acc : AList Denom Nat) (e : CoinID × Nat) => _) = f at h
  cases hgo : Outcome.foldlM' f [] tx.inputs.zipIdx with
  | reject e => rw [hgo] at h; simp [Outcome.bind] at h
  | crash c => rw [hgo] at h; simp [Outcome.bind] at h
  | ok inCoins =>
    obtain ⟨acc, acc', hstep⟩ := foldlM'_ok_zipIdx f tx.inputs 0 [] inCoins hgo i hi
    subst hf
    simp only [Nat.zero_add] at hstep
    split at hstep
    · simp at hstep
    · cases hget : rel.get tx.inputs[i] with
      | none => rw [hget] at hstep; simp at hstep
      | some coin =>
        rw [hget] at hstep
        simp only at hstep
        refine ⟨coin, rfl, ?_⟩
        cases hv : validateTxScripts env i tx.inputs[i] tx coin lh with
        | ok u => rfl
        | reject e => rw [hv] at hstep; simp [Outcome.bind] at hstep
        | crash c => rw [hv] at hstep; simp [Outcome.bind] at hstep

/-! ## symbolic execution of the standard covenants -/

theorem runFuel_succ (o : Oracles) (ops : List Op) (fuel : Nat) (st : Exec) (n : Nat)
    (h : st.pc < ops.length) :
    runFuel o ops (fuel + 1) st n =
      match step o ops st with
      | none => (none, n + 1)
      | some st' => runFuel o ops fuel st' (n + 1) := by
  rw [runFuel, if_pos h]
  cases step o ops st <;> rfl

theorem runFuel_done (o : Oracles) (ops : List Op) (fuel : Nat) (st : Exec) (n : Nat)
    (h : ¬ st.pc < ops.length) :
    runFuel o ops (fuel + 1) st n = (st.stack.head?, n) := by
  rw [runFuel, if_neg h]

/-- what the standard covenants compute when they look at signature slot `k` -/
def stdResult (o : Oracles) (pk : Bytes) (tx : Tx) (k : Nat) : Option Value :=
  match tx.sigs[k]? with
  | none => none
  | some sig => some (.ofBool (if sig.length = 64 then o.sigOk pk tx.hash sig else false))

theorem weightU_stdNew (pk : Bytes) : weightU (stdEd25519New pk) = 166 := by
  simp [weightU, weightUF, opWeight, stdEd25519New, wLoadImm, wPushI, wVRef, wPushB, wSigEOkBase]

theorem weightU_stdLegacy (pk : Bytes) : weightU (stdEd25519Legacy pk) = 163 := by
  simp [weightU, weightUF, opWeight, stdEd25519Legacy, wLoadImm, wPushI, wVRef, wPushB, wSigEOkBase]

/-- the seven instructions shared by the two standard covenants -/
def stdTail (pk : Bytes) : List Op :=
  [.pushi 6, .loadimm (u16 HADDR_SPENDER_TX), .vref, .vref, .pushb pk, .loadimm 1, .sigeok 32]

theorem std_tail (o : Oracles) (pk : Bytes) (hpk : pk.length = 32) (tx : Tx) (hh : tx.hash.length ≤ 32)
    (op0 : Op) (H : Heap) (h0 : H.get 0 = some (valOfTx tx)) (h1 : H.get 1 = some (.bytes tx.hash))
    (k : Nat) (hk : k ≤ 65535) (f n : Nat) :
    (runFuel o (op0 :: stdTail pk) (f + 8) ⟨[.int (BitVec.ofNat 256 k)], H, 1, []⟩ n).1 =
      stdResult o pk tx k := by
  have hkk : (BitVec.ofNat 256 k).toNat = k := by
    simp [BitVec.toNat_ofNat]; omega
  generalize hkv : BitVec.ofNat 256 k = kk at hkk
  have hu0 : (u16 HADDR_SPENDER_TX).toNat = 0 := by decide
  have hu1 : (1 : UInt16).toNat = 1 := by decide
  have hu32 : (32 : UInt16).toNat = 32 := by decide
  have e2 : step o (op0 :: stdTail pk) ⟨[.int kk], H, 1, []⟩ = some ⟨[.int 6, .int kk], H, 2, []⟩ := by
    simp [step, stdTail, execOp, updatePc]
  have e3 : step o (op0 :: stdTail pk) ⟨[.int 6, .int kk], H, 2, []⟩ =
      some ⟨[valOfTx tx, .int 6, .int kk], H, 3, []⟩ := by
    simp [step, stdTail, execOp, updatePc, hu0, h0]
  have e4 : step o (op0 :: stdTail pk) ⟨[valOfTx tx, .int 6, .int kk], H, 3, []⟩ =
      some ⟨[.vec (tx.sigs.map .bytes), .int kk], H, 4, []⟩ := by
    simp [step, stdTail, execOp, updatePc, binop, valOfTx, Value.intoU16, Value.intoVec]
  have e5 : step o (op0 :: stdTail pk) ⟨[.vec (tx.sigs.map .bytes), .int kk], H, 4, []⟩ =
      (tx.sigs[k]?).map fun sig => ⟨[.bytes sig], H, 5, []⟩ := by
    have hk' : ¬ 65535 < k := by omega
    cases hs : tx.sigs[k]? <;>
      simp [step, stdTail, execOp, updatePc, binop, Value.intoU16, Value.intoVec, hkk, hk', hs]
  rw [show f + 8 = (f + 7) + 1 from rfl, runFuel_succ _ _ _ _ _ (by simp [stdTail]), e2]
  simp only
  rw [show f + 7 = (f + 6) + 1 from rfl, runFuel_succ _ _ _ _ _ (by simp [stdTail]), e3]
  simp only
  rw [show f + 6 = (f + 5) + 1 from rfl, runFuel_succ _ _ _ _ _ (by simp [stdTail]), e4]
  simp only
  rw [show f + 5 = (f + 4) + 1 from rfl, runFuel_succ _ _ _ _ _ (by simp [stdTail]), e5]
  unfold stdResult
  cases hs : tx.sigs[k]? with
  | none => simp
  | some sig =>
    have e6 : step o (op0 :: stdTail pk) ⟨[.bytes sig], H, 5, []⟩ =
        some ⟨[.bytes pk, .bytes sig], H, 6, []⟩ := by
      simp [step, stdTail, execOp, updatePc]
    have e7 : step o (op0 :: stdTail pk) ⟨[.bytes pk, .bytes sig], H, 6, []⟩ =
        some ⟨[.bytes tx.hash, .bytes pk, .bytes sig], H, 7, []⟩ := by
      simp [step, stdTail, execOp, updatePc, hu1, h1]
    have e8 : step o (op0 :: stdTail pk) ⟨[.bytes tx.hash, .bytes pk, .bytes sig], H, 7, []⟩ =
        some ⟨[.ofBool (if sig.length = 64 then o.sigOk pk tx.hash sig else false)], H, 8, []⟩ := by
      have hm : ¬ 32 < tx.hash.length := by omega
      by_cases h64 : sig.length = 64
      · simp [step, stdTail, execOp, updatePc, triop, hu32, hpk, hm, h64]
      · by_cases hgt : 64 < sig.length <;>
          simp [step, stdTail, execOp, updatePc, triop, hu32, hpk, hm, h64, hgt]
    simp only [Option.map_some]
    rw [show f + 4 = (f + 3) + 1 from rfl, runFuel_succ _ _ _ _ _ (by simp [stdTail]), e6]
    simp only
    rw [show f + 3 = (f + 2) + 1 from rfl, runFuel_succ _ _ _ _ _ (by simp [stdTail]), e7]
    simp only
    rw [show f + 2 = (f + 1) + 1 from rfl, runFuel_succ _ _ _ _ _ (by simp [stdTail]), e8]
    simp only
    rw [runFuel_done _ _ _ _ _ (by simp [stdTail])]
    simp

theorem execute_stdNew (o : Oracles) (pk : Bytes) (hpk : pk.length = 32) (tx : Tx) (e : CovEnv)
    (hh : tx.hash.length ≤ 32) (hidx : e.spenderIndex < 256) :
    execute o (stdEd25519New pk) tx (some e) = stdResult o pk tx e.spenderIndex := by
  unfold execute run
  rw [weightU_stdNew]
  have hops : stdEd25519New pk = .loadimm (u16 HADDR_SPENDER_INDEX) :: stdTail pk := rfl
  have hu9 : (u16 HADDR_SPENDER_INDEX).toNat = 9 := by decide
  have h0 : (heapOfEnv tx (some e)).get 0 = some (valOfTx tx) := by
    simp [heapOfEnv, Heap.get, HADDR_SPENDER_TX, HADDR_SPENDER_INDEX, HADDR_SPENDER_TXHASH,
      HADDR_PARENT_TXHASH, HADDR_PARENT_INDEX, HADDR_SELF_HASH, HADDR_PARENT_VALUE, HADDR_PARENT_DENOM,
      HADDR_PARENT_ADDITIONAL_DATA, HADDR_PARENT_HEIGHT, HADDR_LAST_HEADER]
  have h1 : (heapOfEnv tx (some e)).get 1 = some (.bytes tx.hash) := by
    simp [heapOfEnv, Heap.get, HADDR_SPENDER_TX, HADDR_SPENDER_INDEX, HADDR_SPENDER_TXHASH,
      HADDR_PARENT_TXHASH, HADDR_PARENT_INDEX, HADDR_SELF_HASH, HADDR_PARENT_VALUE, HADDR_PARENT_DENOM,
      HADDR_PARENT_ADDITIONAL_DATA, HADDR_PARENT_HEIGHT, HADDR_LAST_HEADER]
  have h9 : (heapOfEnv tx (some e)).get 9 = some (.ofNat e.spenderIndex) := by
    simp [heapOfEnv, Heap.get, HADDR_SPENDER_TX, HADDR_SPENDER_INDEX, HADDR_SPENDER_TXHASH,
      HADDR_PARENT_TXHASH, HADDR_PARENT_INDEX, HADDR_SELF_HASH, HADDR_PARENT_VALUE, HADDR_PARENT_DENOM,
      HADDR_PARENT_ADDITIONAL_DATA, HADDR_PARENT_HEIGHT, HADDR_LAST_HEADER]
  have e1 : step o (stdEd25519New pk) (initExec (heapOfEnv tx (some e))) =
      some ⟨[.int (BitVec.ofNat 256 e.spenderIndex)], heapOfEnv tx (some e), 1, []⟩ := by
    rw [hops]
    simp [step, initExec, execOp, updatePc, hu9, h9, Value.ofNat]
  rw [runFuel_succ _ _ _ _ _ (by simp [initExec, stdEd25519New]), e1]
  simp only
  rw [hops]
  exact std_tail o pk hpk tx hh _ _ h0 h1 _ (by omega) 158 _

theorem execute_stdLegacy (o : Oracles) (pk : Bytes) (hpk : pk.length = 32) (tx : Tx) (e : Option CovEnv)
    (hh : tx.hash.length ≤ 32) :
    execute o (stdEd25519Legacy pk) tx e = stdResult o pk tx 0 := by
  unfold execute run
  rw [weightU_stdLegacy]
  have hops : stdEd25519Legacy pk = .pushi 0 :: stdTail pk := rfl
  have h0 : (heapOfEnv tx e).get 0 = some (valOfTx tx) := by
    cases e <;>
    simp [heapOfEnv, Heap.get, HADDR_SPENDER_TX, HADDR_SPENDER_INDEX, HADDR_SPENDER_TXHASH,
      HADDR_PARENT_TXHASH, HADDR_PARENT_INDEX, HADDR_SELF_HASH, HADDR_PARENT_VALUE, HADDR_PARENT_DENOM,
      HADDR_PARENT_ADDITIONAL_DATA, HADDR_PARENT_HEIGHT, HADDR_LAST_HEADER]
  have h1 : (heapOfEnv tx e).get 1 = some (.bytes tx.hash) := by
    cases e <;>
    simp [heapOfEnv, Heap.get, HADDR_SPENDER_TX, HADDR_SPENDER_INDEX, HADDR_SPENDER_TXHASH,
      HADDR_PARENT_TXHASH, HADDR_PARENT_INDEX, HADDR_SELF_HASH, HADDR_PARENT_VALUE, HADDR_PARENT_DENOM,
      HADDR_PARENT_ADDITIONAL_DATA, HADDR_PARENT_HEIGHT, HADDR_LAST_HEADER]
  have e1 : step o (stdEd25519Legacy pk) (initExec (heapOfEnv tx e)) =
      some ⟨[.int (BitVec.ofNat 256 0)], heapOfEnv tx e, 1, []⟩ := by
    rw [hops]
    simp [step, initExec, execOp, updatePc]
  rw [runFuel_succ _ _ _ _ _ (by simp [initExec, stdEd25519Legacy]), e1]
  simp only
  rw [hops]
  exact std_tail o pk hpk tx hh _ _ h0 h1 0 (by omega) 155 _

theorem ofBool_intoBool (b : Bool) : (Value.ofBool b).intoBool = b := by
  cases b <;> simp [Value.ofBool, Value.intoBool]

theorem stdResult_iff (o : Oracles) (pk : Bytes) (tx : Tx) (k : Nat) :
    (∃ v, stdResult o pk tx k = some v ∧ v.intoBool = true) ↔
    (∃ sig, tx.sigs[k]? = some sig ∧ sig.length = 64 ∧ o.sigOk pk tx.hash sig = true) := by
  unfold stdResult
  cases hs : tx.sigs[k]? with
  | none => simp
  | some sig =>
    by_cases h64 : sig.length = 64 <;> simp [ofBool_intoBool, h64]

end Mel
