/- helper lemmas for C18 -/
import MelModel.ApplyTx
import MelModel.Lemmas.Counts
namespace Mel
open Mel.Gen
namespace Mint

theorem bind_ok_inv {α β} {x : Outcome α} {f : α → Outcome β} {b : β}
    (h : x.bind f = .ok b) : ∃ a, x = .ok a ∧ f a = .ok b := by
  cases x with
  | ok a => exact ⟨a, rfl, h⟩
  | reject e => simp [Outcome.bind] at h
  | crash c => simp [Outcome.bind] at h

/-- successful `computeDoscmintSpeed` -/
theorem computeDoscmintSpeed_ok {t : Bool} {d sh ch r : Nat}
    (h : computeDoscmintSpeed t d sh ch = .ok r) :
    d < 128 ∧ ch < sh ∧ r = (if t then 100 else 1) * 2 ^ d / (sh - ch) := by
  unfold computeDoscmintSpeed at h
  split at h
  · cases h
  split at h
  · cases h
  split at h
  · cases h
  simp only at h
  by_cases hv : (if t = true then TIP910_SPEED_FACTOR else 1) * 2 ^ d > U128_MAX
  · rw [if_pos hv] at h; cases h
  rw [if_neg hv] at h
  injection h with h
  refine ⟨by omega, by omega, ?_⟩
  rw [← h]; simp [TIP910_SPEED_FACTOR]

/-- successful `calculateReward` -/
theorem calculateReward_ok {ms ds d r : Nat} {t : Bool}
    (h : calculateReward ms ds d t = .ok r) :
    r = min ((if t then min (2 ^ d * 100) U128_MAX else 2 ^ d) * ms * 1000000 / (ds ^ 2 * 2880)) U128_MAX := by
  unfold calculateReward at h
  split at h
  · cases h
  simp only at h
  split at h
  · cases h
  injection h with h
  rw [← h]
  simp only [satU128, satMul128, TIP910_WORK_FACTOR, MICRO_CONVERTER, REWARD_DIVISOR]

/-- the step of the DOSC-speed fold of `applyBatch` -/
def speedStep (env : Env) (s : State) (rel : Relevant) : Nat → Tx → Outcome Nat :=
  fun speed tx =>
    if tx.kind = .doscMint then (validateDoscmint env s rel tx).bind fun sp => .ok (max speed sp)
    else .ok speed

theorem speedFold_spec (env : Env) (s : State) (rel : Relevant) :
    ∀ (txs : List Tx) (sp0 r : Nat), Outcome.foldlM' (speedStep env s rel) sp0 txs = .ok r →
      sp0 ≤ r ∧
      (∀ tx ∈ txs, tx.kind = .doscMint → ∃ sp, validateDoscmint env s rel tx = .ok sp ∧ sp ≤ r) ∧
      (r = sp0 ∨ ∃ tx ∈ txs, tx.kind = .doscMint ∧ validateDoscmint env s rel tx = .ok r) ∧
      ((∀ tx ∈ txs, tx.kind ≠ .doscMint) → r = sp0) := by
  intro txs
  induction txs with
  | nil =>
    intro sp0 r h
    simp only [Outcome.foldlM'] at h
    injection h with h
    subst h
    simp
  | cons tx txs ih =>
    intro sp0 r h
    simp only [Outcome.foldlM'] at h
    cases hstep : speedStep env s rel sp0 tx with
    | reject e => rw [hstep] at h; cases h
    | crash c => rw [hstep] at h; cases h
    | ok sp1 =>
      rw [hstep] at h
      simp only at h
      obtain ⟨h1, h2, h3, h4⟩ := ih sp1 r h
      unfold speedStep at hstep
      by_cases hk : tx.kind = .doscMint
      · rw [if_pos hk] at hstep
        obtain ⟨sp, hv, hsp⟩ := bind_ok_inv hstep
        injection hsp with hsp
        have hle0 : sp0 ≤ sp1 := by omega
        have hle1 : sp ≤ sp1 := by omega
        refine ⟨by omega, ?_, ?_, ?_⟩
        · intro tx' hmem hk'
          rcases List.mem_cons.mp hmem with rfl | hmem
          · exact ⟨sp, hv, by omega⟩
          · exact h2 tx' hmem hk'
        · rcases h3 with h3 | ⟨tx', hmem, hk', hv'⟩
          · by_cases hc : sp ≤ sp0
            · left; omega
            · right
              refine ⟨tx, List.mem_cons_self, hk, ?_⟩
              have : r = sp := by omega
              rw [this]; exact hv
          · right; exact ⟨tx', List.mem_cons_of_mem _ hmem, hk', hv'⟩
        · intro hall
          exact absurd hk (hall tx List.mem_cons_self)
      · rw [if_neg hk] at hstep
        injection hstep with hstep
        subst hstep
        refine ⟨h1, ?_, ?_, ?_⟩
        · intro tx' hmem hk'
          rcases List.mem_cons.mp hmem with rfl | hmem
          · exact absurd hk' hk
          · exact h2 tx' hmem hk'
        · rcases h3 with h3 | ⟨tx', hmem, hk', hv'⟩
          · left; exact h3
          · right; exact ⟨tx', List.mem_cons_of_mem _ hmem, hk', hv'⟩
        · intro hall
          exact h4 (fun tx' hmem => hall tx' (List.mem_cons_of_mem _ hmem))

/-- a successful `applyBatch` loaded the relevant coins and its DOSC speed is the result of the speed fold -/
theorem applyBatch_speed {env : Env} {s s' : State} {txs : List Tx} {fb : Header}
    (h : applyBatch env s txs fb = .ok s') :
    ∃ rel, loadRelevantCoins s txs = .ok rel ∧
      Outcome.foldlM' (speedStep env s rel) s.doscSpeed txs = .ok s'.doscSpeed := by
  unfold applyBatch at h
  obtain ⟨rel, hrel, h⟩ := bind_ok_inv h
  obtain ⟨ns, _, h⟩ := bind_ok_inv h
  simp only at h
  obtain ⟨_, _, h⟩ := bind_ok_inv h
  obtain ⟨newSpeed, hsp, h⟩ := bind_ok_inv h
  obtain ⟨next, _, h⟩ := bind_ok_inv h
  injection h with h
  subst h
  exact ⟨rel, hrel, hsp⟩

/-- `forM'` success means every element passed -/
theorem forM'_ok {α} {f : α → Outcome Unit} :
    ∀ {l : List α}, Outcome.forM' f l = .ok () → ∀ a ∈ l, f a = .ok () := by
  intro l
  induction l with
  | nil => intro _ a ha; cases ha
  | cons x xs ih =>
    intro h a ha
    simp only [Outcome.forM'] at h
    cases hx : f x with
    | reject e => rw [hx] at h; cases h
    | crash c => rw [hx] at h; cases h
    | ok u =>
      rw [hx] at h
      simp only at h
      rcases List.mem_cons.mp ha with rfl | ha
      · exact hx
      · exact ih h a ha

end Mint
end Mel
