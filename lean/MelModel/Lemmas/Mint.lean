/- helper lemmas for C18 -/
import MelModel.ApplyTx
import MelModel.Lemmas.Counts
namespace Mel
end Mel
