/- helper lemmas for C01 (batch part) -/
import MelModel.ApplyTx
import MelModel.Lemmas.Batch
import MelModel.SupplyDefs
namespace Mel
end Mel
