/- helper lemmas for C01 (batch part) -/
import MelModel.ApplyTx
import MelModel.Lemmas.Batch
import MelModel.SupplyDefs
namespace Mel
open Mel.BatchL

/-! ### sums over lists -/

theorem sum_filter_map {α : Type} (p : α → Prop) [DecidablePred p] (f : α → Nat) (l : List α) :
    ((l.filter fun x => decide (p x)).map f).sum = (l.map fun x => if p x then f x else 0).sum := by
  induction l with
  | nil => rfl
  | cons a rest ih =>
    simp only [List.filter_cons, List.map_cons, List.sum_cons]
    by_cases h : p a
    · simp [h, ih]
    · simp [h, ih]

theorem sum_map_le_combine {α : Type} (f g h i : α → Nat) (l : List α)
    (hl : ∀ x ∈ l, f x + g x ≤ h x + i x) :
    (l.map f).sum + (l.map g).sum ≤ (l.map h).sum + (l.map i).sum := by
  induction l with
  | nil => simp
  | cons a rest ih =>
    have h1 := hl a List.mem_cons_self
    have h2 := ih fun x hx => hl x (List.mem_cons_of_mem _ hx)
    simp only [List.map_cons, List.sum_cons]
    omega

theorem sum_map_const_zero {α : Type} (l : List α) : (l.map fun _ => 0).sum = 0 := by
  induction l with
  | nil => rfl
  | cons a rest ih => simpa using ih

theorem sum_map_eq_zero {α : Type} (f : α → Nat) (l : List α) (h : ∀ x ∈ l, f x = 0) : (l.map f).sum = 0 := by
  induction l with
  | nil => rfl
  | cons a rest ih =>
    simp only [List.map_cons, List.sum_cons]
    rw [h a List.mem_cons_self, ih fun x hx => h x (List.mem_cons_of_mem _ hx)]

/-! ### weighted sums over association lists -/
namespace AList
variable {κ ν : Type} [DecidableEq κ]

/-- sum of a weight over the values of a map -/
def wsum (w : ν → Nat) (m : AList κ ν) : Nat := (m.map fun e => w e.2).sum

omit [DecidableEq κ] in
theorem wsum_nil (w : ν → Nat) : wsum w ([] : AList κ ν) = 0 := rfl

omit [DecidableEq κ] in
theorem wsum_cons (w : ν → Nat) (k : κ) (v : ν) (m : AList κ ν) :
    wsum w ((k, v) :: m) = w v + wsum w m := by
  simp [wsum]

theorem wsum_del_le (w : ν → Nat) (m : AList κ ν) (k : κ) : wsum w (del m k) ≤ wsum w m := by
  induction m with
  | nil => exact Nat.le_refl _
  | cons e rest ih =>
    obtain ⟨k', v⟩ := e
    rw [del_cons]
    split
    · rw [wsum_cons]; omega
    · rw [wsum_cons, wsum_cons]; omega

/-- deleting a present key lowers the sum by (at least) its weight -/
theorem wsum_del_add_le (w : ν → Nat) {m : AList κ ν} {k : κ} {old : ν} (h : get m k = some old) :
    wsum w (del m k) + w old ≤ wsum w m := by
  induction m with
  | nil => simp [get] at h
  | cons e rest ih =>
    obtain ⟨k', v⟩ := e
    rw [get_cons] at h
    rw [del_cons]
    by_cases hk : k' = k
    · simp only [hk, if_true, Option.some.injEq] at h ⊢
      subst h
      have := wsum_del_le w rest k
      rw [wsum_cons]; omega
    · simp only [hk, if_false] at h ⊢
      have := ih h
      rw [wsum_cons, wsum_cons]; omega

theorem wsum_set_le (w : ν → Nat) (m : AList κ ν) (k : κ) (v : ν) :
    wsum w (set m k v) ≤ wsum w m + w v := by
  have := wsum_del_le w m k
  simp only [set, wsum_cons]; omega

theorem wsum_extend_le (w : ν → Nat) (es : List (κ × ν)) :
    ∀ m : AList κ ν, wsum w (extend m es) ≤ wsum w m + wsum w es := by
  induction es with
  | nil => intro m; exact Nat.le_refl _
  | cons e rest ih =>
    intro m
    obtain ⟨k, v⟩ := e
    have h1 : extend m ((k, v) :: rest) = extend (set m k v) rest := rfl
    have h2 := ih (set m k v)
    have h3 := wsum_set_le w m k v
    rw [h1, wsum_cons]; omega

theorem get_some_mem_keys {m : AList κ ν} {k : κ} {v : ν} (h : get m k = some v) : k ∈ keys m :=
  mem_keys_of_mem (mem_of_get_eq_some h)

/-- a map with unique keys each of whose entries occurs in one of two other maps weighs at most their sum -/
theorem wsum_le_of_get (w : ν → Nat) (m₁ : AList κ ν) :
    ∀ (m₂ m₃ : AList κ ν), (keys m₁).Nodup →
      (∀ k v, get m₁ k = some v → get m₂ k = some v ∨ get m₃ k = some v) →
      wsum w m₁ ≤ wsum w m₂ + wsum w m₃ := by
  induction m₁ with
  | nil => intro m₂ m₃ _ _; simp [wsum_nil]
  | cons e rest ih =>
    obtain ⟨k, v⟩ := e
    intro m₂ m₃ hn hg
    simp only [keys, List.map_cons, List.nodup_cons] at hn
    have hrest : ∀ k' v', get rest k' = some v' → k' ≠ k ∧ get ((k, v) :: rest) k' = some v' := by
      intro k' v' h
      have hne : k' ≠ k := by
        intro he; subst he; exact hn.1 (get_some_mem_keys h)
      have hne' : ¬ k = k' := fun he => hne he.symm
      exact ⟨hne, by rw [get_cons]; simp [hne', h]⟩
    rw [wsum_cons]
    rcases hg k v (by simp [get_cons]) with h2 | h3
    · have := ih (del m₂ k) m₃ hn.2 (by
        intro k' v' h
        obtain ⟨hne, h'⟩ := hrest k' v' h
        rcases hg k' v' h' with h | h
        · exact Or.inl (by rw [get_del_ne m₂ hne]; exact h)
        · exact Or.inr h)
      have := wsum_del_add_le w h2
      omega
    · have := ih m₂ (del m₃ k) hn.2 (by
        intro k' v' h
        obtain ⟨hne, h'⟩ := hrest k' v' h
        rcases hg k' v' h' with h | h
        · exact Or.inl h
        · exact Or.inr (by rw [get_del_ne m₃ hne]; exact h))
      have := wsum_del_add_le w h3
      omega

end AList

/-! ### coin totals -/

/-- the value a coin contributes to denomination `d` -/
def cval (d : Denom) (c : CoinDataHeight) : Nat := if c.coinData.denom = d then c.coinData.value else 0

/-- total of denomination `d` over a coin association list -/
def ctot (d : Denom) (m : AList CoinID CoinDataHeight) : Nat := AList.wsum (cval d) m

theorem coinsTotal_eq (m : CoinMap) (d : Denom) : coinsTotal m d = ctot d m.coins := by
  simp only [coinsTotal, ctot, AList.wsum, cval]
  exact sum_filter_map (fun e : CoinID × CoinDataHeight => e.2.coinData.denom = d)
    (fun e => e.2.coinData.value) m.coins

theorem CoinMap.coins_insertCoin (m : CoinMap) (id : CoinID) (c : CoinDataHeight) (t : Bool) :
    (m.insertCoin id c t).coins = m.coins.set id c := by
  simp only [CoinMap.insertCoin]; split <;> rfl

/-! ### insertion phase -/

theorem insStep_keys_nodup (rel : Relevant) (t : Bool) (coins : CoinMap) (id : CoinID)
    (h : (AList.keys coins.coins).Nodup) : (AList.keys (insStep rel t coins id).coins).Nodup := by
  simp only [insStep]
  split
  · rw [CoinMap.coins_insertCoin]; exact AList.keys_nodup_set _ _ h
  · exact h

theorem insFold_keys_nodup (rel : Relevant) (t : Bool) (L : List CoinID) :
    ∀ coins : CoinMap, (AList.keys coins.coins).Nodup →
      (AList.keys (L.foldl (insStep rel t) coins).coins).Nodup := by
  induction L with
  | nil => intro coins h; exact h
  | cons id rest ih =>
    intro coins h
    rw [List.foldl_cons]
    exact ih _ (insStep_keys_nodup rel t coins id h)

/-- the value an output contributes to denomination `d` once created -/
def outVal (tx : Tx) (d : Denom) (o : CoinData) : Nat := if createdDenom tx o = d then o.value else 0

/-- everything a transaction's outputs could create in denomination `d` -/
def outAll (tx : Tx) (d : Denom) : Nat := (tx.outputs.map (outVal tx d)).sum

/-- the per-output function of `outputCoinsFromTx` -/
def mkOut (tx : Tx) (height : Nat) (e : CoinData × Nat) : Option (CoinID × CoinDataHeight) :=
  let cd : CoinData := if e.1.denom = .newCustom then { e.1 with denom := .custom tx.hash } else e.1
  if cd.covhash ≠ coinDestroy then some ({ txhash := tx.hash, index := e.2 % 256 }, { coinData := cd, height := height })
  else none

theorem outputCoinsFromTx_eq (tx : Tx) (height : Nat) :
    outputCoinsFromTx tx height = tx.outputs.zipIdx.filterMap (mkOut tx height) := rfl

theorem mkOut_val {tx : Tx} {height : Nat} {e : CoinData × Nat} {x : CoinID × CoinDataHeight} (d : Denom)
    (h : mkOut tx height e = some x) : cval d x.2 = outVal tx d e.1 := by
  obtain ⟨o, i⟩ := e
  simp only [mkOut] at h
  by_cases hne : (if o.denom = .newCustom then ({ o with denom := .custom tx.hash } : CoinData) else o).covhash
      ≠ coinDestroy
  · rw [if_pos hne] at h
    simp only [Option.some.injEq] at h
    subst h
    simp only [cval, outVal, createdDenom]
    by_cases hn : o.denom = .newCustom <;> simp [hn]
  · rw [if_neg hne] at h
    cases h

theorem wsum_outputCoins_aux (tx : Tx) (height : Nat) (d : Denom) (l : List (CoinData × Nat)) :
    AList.wsum (cval d) (l.filterMap (mkOut tx height)) ≤ (l.map fun e => outVal tx d e.1).sum := by
  induction l with
  | nil => simp [AList.wsum]
  | cons e rest ih =>
    rw [List.filterMap_cons]
    simp only [List.map_cons, List.sum_cons]
    cases hm : mkOut tx height e with
    | none => simp only; omega
    | some x =>
      simp only
      obtain ⟨k, c⟩ := x
      rw [AList.wsum_cons]
      have := mkOut_val d hm
      simp only at this
      omega

theorem map_fst_zipIdx_sum {α : Type} (f : α → Nat) (l : List α) :
    ∀ n, ((l.zipIdx n).map fun e => f e.1).sum = (l.map f).sum := by
  induction l with
  | nil => intro n; rfl
  | cons a rest ih => intro n; simp [List.zipIdx_cons, ih]

theorem wsum_outputCoinsFromTx (tx : Tx) (height : Nat) (d : Denom) :
    AList.wsum (cval d) (outputCoinsFromTx tx height) ≤ outAll tx d := by
  have := wsum_outputCoins_aux tx height d tx.outputs.zipIdx
  rw [map_fst_zipIdx_sum (outVal tx d)] at this
  rw [outputCoinsFromTx_eq]
  exact this

theorem ctot_createdFold (height : Nat) (d : Denom) (txs : List Tx) :
    ∀ acc : Relevant, ctot d (txs.foldl (fun acc tx => acc.extend (outputCoinsFromTx tx height)) acc) ≤
      ctot d acc + (txs.map fun tx => outAll tx d).sum := by
  induction txs with
  | nil => intro acc; simp
  | cons tx rest ih =>
    intro acc
    rw [List.foldl_cons]
    have h1 := ih (acc.extend (outputCoinsFromTx tx height))
    have h2 := AList.wsum_extend_le (cval d) (outputCoinsFromTx tx height) acc
    have h3 := wsum_outputCoinsFromTx tx height d
    simp only [ctot, List.map_cons, List.sum_cons] at h1 h2 ⊢
    omega

theorem ctot_createdOf (height : Nat) (d : Denom) (txs : List Tx) :
    ctot d (createdOf height txs) ≤ (txs.map fun tx => outAll tx d).sum := by
  have := ctot_createdFold height d txs []
  simpa [createdOf, ctot, AList.wsum_nil] using this

/-- the coin total after the insertion phase -/
theorem ctot_insFold {s : State} {txs : List Tx} {rel : Relevant} (t : Bool)
    (h : loadRelevantCoins s txs = .ok rel) (hk : (AList.keys s.coins.coins).Nodup) (d : Denom) :
    ctot d ((outputIds txs).foldl (insStep rel t) s.coins).coins ≤
      ctot d s.coins.coins + (txs.map fun tx => outAll tx d).sum := by
  obtain ⟨-, -, -, r1, r2⟩ := loadRelevantCoins_ok h
  have hn := insFold_keys_nodup rel t (outputIds txs) s.coins hk
  have key := AList.wsum_le_of_get (cval d) _ s.coins.coins (createdOf s.height txs) hn (by
    intro k v hg
    have hg' : ((outputIds txs).foldl (insStep rel t) s.coins).getCoin k = some v := hg
    rw [getCoin_insFold] at hg'
    split at hg'
    · cases hr : rel.get k with
      | none => rw [hr] at hg'; exact Or.inl hg'
      | some c =>
        rw [hr] at hg'
        simp only [Option.some.injEq] at hg'; subst hg'
        cases hc : (createdOf s.height txs).get k with
        | none => exact Or.inl (r2 k c hc hr)
        | some c' =>
          have := r1 k c' hc
          rw [hr] at this
          exact Or.inr this.symm
    · exact Or.inl hg')
  have := ctot_createdOf s.height d txs
  simp only [ctot] at key this ⊢
  omega

/-! ### removal phase -/

/-- the value input `id` contributes to denomination `d` (according to the relevant-coin table) -/
def inVal (rel : Relevant) (d : Denom) (id : CoinID) : Nat :=
  match rel.get id with
  | some c => cval d c
  | none => 0

def inSum (rel : Relevant) (d : Denom) (ids : List CoinID) : Nat := (ids.map (inVal rel d)).sum

/-- every still-unspent input that is relevant is present in the coin map, with the relevant content -/
def RInv (rel : Relevant) (m : CoinMap) (ids : List CoinID) : Prop :=
  ∀ k ∈ ids, ∀ c, rel.get k = some c → m.getCoin k = some c

theorem removeFold_tot (rel : Relevant) (d : Denom) (t : Bool) (ids : List CoinID) :
    ∀ (later : List CoinID) (m m' : CoinMap),
      Outcome.foldlM' (fun (c : CoinMap) id => c.removeCoin id t) m ids = .ok m' →
      (ids ++ later).Nodup → RInv rel m (ids ++ later) →
      ctot d m'.coins + inSum rel d ids ≤ ctot d m.coins ∧ RInv rel m' later := by
  induction ids with
  | nil =>
    intro later m m' h _ hi
    rw [Outcome.foldlM'_nil_ok] at h; subst h
    exact ⟨by simp [inSum], hi⟩
  | cons id rest ih =>
    intro later m m' h hn hi
    rw [Outcome.foldlM'_cons_ok] at h
    obtain ⟨m1, h1, h2⟩ := h
    rw [List.cons_append, List.nodup_cons] at hn
    have hi1 : RInv rel m1 (rest ++ later) := by
      intro k hk c hc
      have hne : k ≠ id := by intro he; subst he; exact hn.1 hk
      rw [CoinMap.getCoin_removeCoin h1 k, if_neg hne]
      exact hi k (List.mem_cons_of_mem _ hk) c hc
    obtain ⟨i1, i2⟩ := ih later m1 m' h2 hn.2 hi1
    refine ⟨?_, i2⟩
    have hstep : ctot d m1.coins + inVal rel d id ≤ ctot d m.coins := by
      rw [CoinMap.coins_removeCoin h1]
      simp only [inVal, ctot]
      cases hr : rel.get id with
      | none => exact AList.wsum_del_le _ _ _
      | some c =>
        have : m.coins.get id = some c := hi id (by simp) c hr
        exact AList.wsum_del_add_le (cval d) this
    simp only [inSum, List.map_cons, List.sum_cons] at i1 ⊢
    omega

theorem faucetStep_tot {env : Env} {st st1 : State} {tx : Tx} (rel : Relevant) (d : Denom)
    (h : (if tx.kind = .faucet then handleFaucetTx env st tx else .ok st) = .ok st1) :
    ctot d st1.coins.coins ≤ ctot d st.coins.coins ∧
    (∀ ids, RInv rel st.coins ids → RInv rel st1.coins ids) ∧
    st1.pools = st.pools ∧ st1.feePool = st.feePool ∧ st1.tips = st.tips := by
  by_cases hk : tx.kind = .faucet
  · rw [if_pos hk] at h
    simp only [handleFaucetTx] at h
    split at h
    · cases h
    · split at h
      · cases h
      · rename_i hfresh
        split at h
        · cases h
          refine ⟨?_, ?_, rfl, rfl, rfl⟩
          · simp only [CoinMap.coins_insertCoin, ctot]
            have := AList.wsum_set_le (cval d) st.coins.coins { txhash := env.fdp tx.hash, index := 0 }
              { coinData := { denom := .mel, value := 0, additionalData := [], covhash := zeroHash }, height := 0 }
            have hz : cval d { coinData := { denom := .mel, value := 0, additionalData := [], covhash := zeroHash },
                               height := 0 } = 0 := by simp [cval]
            omega
          · intro ids hi k hk c hc
            have hpres := hi k hk c hc
            have hne : k ≠ { txhash := env.fdp tx.hash, index := 0 } := by
              intro he; subst he
              rw [hpres] at hfresh; simp at hfresh
            simp only [CoinMap.getCoin_insertCoin, if_neg hne]
            exact hpres
        · cases h
          exact ⟨Nat.le_refl _, fun _ hi => hi, rfl, rfl, rfl⟩
  · rw [if_neg hk] at h
    cases h
    exact ⟨Nat.le_refl _, fun _ hi => hi, rfl, rfl, rfl⟩

theorem satAdd128_le (a b : Nat) : satAdd128 a b ≤ a + b := by
  simp only [satAdd128]; omega

theorem nextStep_tot {env : Env} {t : Bool} {st st' : State} {tx : Tx} (rel : Relevant) (d : Denom)
    (later : List CoinID) (h : nextStep env t st tx = .ok st') (hn : (tx.inputs ++ later).Nodup)
    (hi : RInv rel st.coins (tx.inputs ++ later)) :
    ctot d st'.coins.coins + inSum rel d tx.inputs ≤ ctot d st.coins.coins ∧ RInv rel st'.coins later ∧
    st'.pools = st.pools ∧ st'.feePool + st'.tips ≤ st.feePool + st.tips + tx.fee := by
  unfold nextStep at h
  split at h
  · cases h
  simp only [Outcome.bind_eq_ok] at h
  obtain ⟨st1, h1, coins2, h2, minFee, -, h4⟩ := h
  obtain ⟨f1, f2, f3, f4, f5⟩ := faucetStep_tot rel d h1
  obtain ⟨r1, r2⟩ := removeFold_tot rel d t tx.inputs later st1.coins coins2 h2 hn (f2 _ hi)
  split at h4
  · cases h4
  · rename_i hfee
    cases h4
    refine ⟨by simp only; omega, r2, f3, ?_⟩
    have a1 := satAdd128_le st1.tips (tx.fee - minFee)
    have a2 := satAdd128_le st1.feePool minFee
    have hfee' : minFee ≤ tx.fee := Nat.le_of_not_lt hfee
    simp only
    omega

theorem nextFold_tot (env : Env) (t : Bool) (rel : Relevant) (d : Denom) (txs : List Tx) :
    ∀ (st st' : State), Outcome.foldlM' (nextStep env t) st txs = .ok st' →
      (txs.flatMap (·.inputs)).Nodup → RInv rel st.coins (txs.flatMap (·.inputs)) →
      ctot d st'.coins.coins + (txs.map fun tx => inSum rel d tx.inputs).sum ≤ ctot d st.coins.coins ∧
      st'.pools = st.pools ∧
      st'.feePool + st'.tips ≤ st.feePool + st.tips + (txs.map (·.fee)).sum := by
  induction txs with
  | nil =>
    intro st st' h _ _
    rw [Outcome.foldlM'_nil_ok] at h; subst h
    simp
  | cons tx rest ih =>
    intro st st' h hn hi
    rw [Outcome.foldlM'_cons_ok] at h
    obtain ⟨st1, h1, h2⟩ := h
    rw [List.flatMap_cons] at hn hi
    obtain ⟨a1, a2, a3, a4⟩ := nextStep_tot rel d (rest.flatMap (·.inputs)) h1 hn hi
    obtain ⟨b1, b2, b3⟩ := ih st1 st' h2 (List.nodup_append.mp hn).2.1 a2
    refine ⟨?_, b2.trans a3, ?_⟩
    · simp only [List.map_cons, List.sum_cons]; omega
    · simp only [List.map_cons, List.sum_cons]; omega

/-- after the insertion phase every relevant coin is present with its relevant content -/
theorem RInv_insFold {s : State} {txs : List Tx} {rel : Relevant} (t : Bool)
    (h : loadRelevantCoins s txs = .ok rel) (ids : List CoinID) :
    RInv rel ((outputIds txs).foldl (insStep rel t) s.coins) ids := by
  obtain ⟨-, -, -, r1, r2⟩ := loadRelevantCoins_ok h
  intro k _ c hc
  rw [getCoin_insFold]
  cases hcr : (createdOf s.height txs).get k with
  | some c' => rw [if_pos (createdOf_key_mem_outputIds hcr), hc]
  | none =>
    have := r2 k c hcr hc
    split
    · rw [hc]
    · exact this

/-! ### per-transaction balance -/

theorem getD_addDenom (m : AList Denom Nat) (d : Denom) (v : Nat) (d' : Denom) :
    ((addDenom m d v).get d').getD 0 = (m.get d').getD 0 + (if d = d' then v else 0) := by
  by_cases h : d' = d
  · subst h; simp [addDenom, AList.get_set_self]
  · have h' : ¬ d = d' := fun he => h he.symm
    simp [addDenom, AList.get_set_ne _ _ h, h']

/-- the outputs of raw denomination `d` -/
def rawOut (tx : Tx) (d : Denom) : Nat := (tx.outputs.map fun o => if o.denom = d then o.value else 0).sum

theorem getD_outFold (l : List CoinData) (d : Denom) :
    ∀ m : AList Denom Nat, ((l.foldl (fun acc o => addDenom acc o.denom o.value) m).get d).getD 0 =
      (m.get d).getD 0 + (l.map fun o => if o.denom = d then o.value else 0).sum := by
  induction l with
  | nil => intro m; simp
  | cons o rest ih =>
    intro m
    rw [List.foldl_cons, ih, getD_addDenom]
    simp only [List.map_cons, List.sum_cons]
    omega

theorem getD_totalOutputs (tx : Tx) (d : Denom) :
    (tx.totalOutputs.get d).getD 0 = rawOut tx d + (if d = .mel then tx.fee else 0) := by
  simp only [Tx.totalOutputs, getD_addDenom, getD_outFold, rawOut]
  have : (AList.get ([] : AList Denom Nat) d).getD 0 = 0 := rfl
  rw [this]
  by_cases h : d = .mel
  · subst h; simp
  · have h' : ¬ Denom.mel = d := fun he => h he.symm
    simp [h, h']

/-- one step of the input loop of `checkTxValidity` -/
def inStep (env : Env) (s : State) (lastHeader : Header) (tx : Tx) (rel : Relevant)
    (newStakes : AList Hash StakeDoc) (acc : AList Denom Nat) (e : CoinID × Nat) : Outcome (AList Denom Nat) :=
  let coinId := e.1
  if (newStakes.contains coinId.txhash || (s.stakes.getStake coinId.txhash).isSome) && !legacyStakeLock s
  then .reject .coinLocked
  else match rel.get coinId with
    | none => .reject .nonexistentCoin
    | some coin =>
      (validateTxScripts env e.2 coinId tx coin lastHeader).bind fun _ =>
        let total := (acc.get coin.coinData.denom).getD 0 + coin.coinData.value
        if total > U128_MAX then .crash "applytx.rs: in_coins sum overflow"
        else .ok (acc.set coin.coinData.denom total)

theorem checkTxValidity_eq (env : Env) (s : State) (lastHeader : Header) (tx : Tx) (rel : Relevant)
    (newStakes : AList Hash StakeDoc) :
    checkTxValidity env s lastHeader tx rel newStakes =
      (Outcome.foldlM' (inStep env s lastHeader tx rel newStakes) [] tx.inputs.zipIdx).bind fun inCoins =>
        checkBalanced tx.kind inCoins tx.totalOutputs := rfl

theorem inStep_ok {env : Env} {s : State} {lastHeader : Header} {tx : Tx} {rel : Relevant}
    {newStakes : AList Hash StakeDoc} {acc acc' : AList Denom Nat} {e : CoinID × Nat}
    (h : inStep env s lastHeader tx rel newStakes acc e = .ok acc') :
    ∃ coin, rel.get e.1 = some coin ∧ acc' = addDenom acc coin.coinData.denom coin.coinData.value := by
  simp only [inStep] at h
  split at h
  · cases h
  · split at h
    · cases h
    · rename_i coin hr
      rw [Outcome.bind_eq_ok] at h
      obtain ⟨_, -, h⟩ := h
      split at h
      · cases h
      · cases h
        exact ⟨coin, hr, rfl⟩

theorem getD_inFold {env : Env} {s : State} {lastHeader : Header} {tx : Tx} {rel : Relevant}
    {newStakes : AList Hash StakeDoc} (d : Denom) (l : List (CoinID × Nat)) :
    ∀ acc r : AList Denom Nat, Outcome.foldlM' (inStep env s lastHeader tx rel newStakes) acc l = .ok r →
      (r.get d).getD 0 = (acc.get d).getD 0 + (l.map fun e => inVal rel d e.1).sum := by
  induction l with
  | nil =>
    intro acc r h
    rw [Outcome.foldlM'_nil_ok] at h; subst h; simp
  | cons e rest ih =>
    intro acc r h
    rw [Outcome.foldlM'_cons_ok] at h
    obtain ⟨acc1, h1, h2⟩ := h
    obtain ⟨coin, hr, rfl⟩ := inStep_ok h1
    rw [ih _ r h2, getD_addDenom]
    simp only [List.map_cons, List.sum_cons, inVal, hr, cval]
    omega

theorem checkBalanced_ok {kind : TxKind} {inCoins outCoins : AList Denom Nat} (hk : kind ≠ .faucet)
    (h : checkBalanced kind inCoins outCoins = .ok ()) (d : Denom) (v : Nat) (hv : (d, v) ∈ outCoins)
    (hd : d ≠ .newCustom) (he : ¬ (kind = .doscMint ∧ d = .erg)) : inCoins.get d = some v := by
  simp only [checkBalanced, if_neg hk] at h
  rw [Outcome.forM'_eq_ok] at h
  have := h (d, v) hv
  simp only at this
  split at this
  · rename_i hc
    simp only [Bool.or_eq_true, decide_eq_true_eq, Bool.and_eq_true] at hc
    rcases hc with hc | hc
    · exact absurd hc hd
    · exact absurd hc he
  · split at this
    · cases this
    · rename_i iv hiv
      split at this
      · cases this
      · rename_i hne
        rw [hiv]
        have : v = iv := Classical.not_not.mp hne
        rw [this]

/-- what one transaction may create out of nothing in denomination `d` (same body as `txIssuance`) -/
def issue (tx : Tx) (d : Denom) : Nat :=
  if tx.kind = .faucet then
    ((tx.outputs.filter fun o => createdDenom tx o = d).map (·.value)).sum + (if d = .mel then tx.fee else 0)
  else
    ((tx.outputs.filter fun o => o.denom = .newCustom ∧ d = .custom tx.hash).map (·.value)).sum +
    (if tx.kind = .doscMint ∧ d = .erg then ((tx.outputs.filter fun o => o.denom = .erg).map (·.value)).sum else 0)

theorem sum_map_le_add {α : Type} (f g h : α → Nat) (l : List α) (hl : ∀ x ∈ l, f x ≤ g x + h x) :
    (l.map f).sum ≤ (l.map g).sum + (l.map h).sum := by
  have := sum_map_le_combine f (fun _ => 0) g h l (by intro x hx; have := hl x hx; omega)
  rw [sum_map_const_zero] at this
  omega

theorem outAll_le (tx : Tx) (d : Denom) (hd : d ≠ .newCustom) :
    outAll tx d ≤
      ((tx.outputs.filter fun o => o.denom = .newCustom ∧ d = .custom tx.hash).map (·.value)).sum + rawOut tx d := by
  rw [sum_filter_map (fun o : CoinData => o.denom = .newCustom ∧ d = .custom tx.hash) (·.value)]
  apply sum_map_le_add
  intro o _
  simp only [outVal]
  by_cases hn : o.denom = .newCustom
  · have hcd : createdDenom tx o = .custom tx.hash := by simp [createdDenom, hn]
    rw [hcd]
    by_cases h2 : Denom.custom tx.hash = d
    · subst h2; simp [hn]
    · rw [if_neg h2]; exact Nat.zero_le _
  · have hcd : createdDenom tx o = o.denom := by simp [createdDenom, hn]
    rw [hcd]; exact Nat.le_add_left _ _

theorem outAll_newCustom (tx : Tx) : outAll tx .newCustom = 0 := by
  have : outVal tx .newCustom = fun _ => 0 := by
    funext o
    simp only [outVal, createdDenom]
    by_cases hn : o.denom = .newCustom <;> simp [hn]
  rw [outAll, this]
  exact sum_map_const_zero _

/-- a validated transaction creates at most what it consumes plus its declared issuance -/
theorem tx_balance {env : Env} {s : State} {lastHeader : Header} {tx : Tx} {rel : Relevant}
    {newStakes : AList Hash StakeDoc} (h : checkTxValidity env s lastHeader tx rel newStakes = .ok ())
    (d : Denom) :
    outAll tx d + (if d = .mel then tx.fee else 0) ≤ inSum rel d tx.inputs + issue tx d := by
  rw [checkTxValidity_eq, Outcome.bind_eq_ok] at h
  obtain ⟨inCoins, hin, hbal⟩ := h
  by_cases hk : tx.kind = .faucet
  · simp only [issue, if_pos hk]
    rw [sum_filter_map (fun o : CoinData => createdDenom tx o = d) (·.value)]
    have e : outAll tx d = (tx.outputs.map fun o => if createdDenom tx o = d then o.value else 0).sum := rfl
    rw [e]
    omega
  · simp only [issue, if_neg hk]
    by_cases hd : d = .newCustom
    · subst hd
      rw [outAll_newCustom]; simp
    · have h1 := outAll_le tx d hd
      have hsum := getD_inFold (env := env) (s := s) (lastHeader := lastHeader) (tx := tx) (rel := rel)
        (newStakes := newStakes) d tx.inputs.zipIdx [] inCoins hin
      rw [map_fst_zipIdx_sum (inVal rel d)] at hsum
      have hnil : (AList.get ([] : AList Denom Nat) d).getD 0 = 0 := rfl
      rw [hnil] at hsum
      by_cases he : tx.kind = .doscMint ∧ d = .erg
      · rw [if_pos he]
        obtain ⟨-, rfl⟩ := he
        rw [sum_filter_map (fun o : CoinData => o.denom = .erg) (·.value)]
        simp only [rawOut] at h1
        simp only [show ¬ Denom.erg = Denom.mel by decide, if_false]
        omega
      · rw [if_neg he]
        have htot := getD_totalOutputs tx d
        cases hg : tx.totalOutputs.get d with
        | none =>
          rw [hg] at htot
          simp only [Option.getD_none] at htot
          omega
        | some v =>
          rw [hg] at htot
          simp only [Option.getD_some] at htot
          have := checkBalanced_ok hk hbal d v (AList.mem_of_get_eq_some hg) hd he
          rw [this] at hsum
          simp only [Option.getD_some] at hsum
          simp only [inSum]
          omega

/-! ### the whole batch -/

theorem applyBatch_ok_full {env : Env} {s s' : State} {txs : List Tx} {fb : Header}
    (h : applyBatch env s txs fb = .ok s') :
    ∃ rel newStakes next, loadRelevantCoins s txs = .ok rel ∧
      (∀ tx ∈ txs, checkTxValidity env s (lastHeaderOf s fb) tx rel newStakes = .ok ()) ∧
      createNextState env s txs rel s.tip906 = .ok next ∧ s'.coins = next.coins ∧ s'.pools = next.pools ∧
      s'.feePool = next.feePool ∧ s'.tips = next.tips := by
  simp only [applyBatch, Outcome.bind_eq_ok] at h
  obtain ⟨rel, h1, newStakes, h2, u, h3, newSpeed, -, next, h5, h6⟩ := h
  cases u
  rw [Outcome.forM'_eq_ok] at h3
  cases h6
  exact ⟨rel, newStakes, next, h1, h3, h5, rfl, rfl, rfl, rfl⟩

theorem sum_map_feeIf (txs : List Tx) (d : Denom) :
    (txs.map fun tx => if d = .mel then tx.fee else 0).sum = if d = .mel then (txs.map (·.fee)).sum else 0 := by
  by_cases h : d = .mel
  · simp [h]
  · simp only [h, if_false]; exact sum_map_const_zero _

/-- conservation across a batch, in terms of `issue` -/
theorem supply_applyBatch (env : Env) (s s' : State) (txs : List Tx) (fb : Header)
    (h : applyBatch env s txs fb = .ok s') (hk : (s.coins.coins.map (·.1)).Nodup) (d : Denom) :
    supply s' d ≤ supply s d + (txs.map fun tx => issue tx d).sum := by
  obtain ⟨rel, newStakes, next, h1, h3, h4, e1, e2, e3, e4⟩ := applyBatch_ok_full h
  obtain ⟨-, hnd, -, -, -⟩ := loadRelevantCoins_ok h1
  rw [createNextState_eq] at h4
  have hins := ctot_insFold s.tip906 h1 hk d
  have hinv := RInv_insFold s.tip906 h1 (txs.flatMap (·.inputs))
  obtain ⟨n1, n2, n3⟩ := nextFold_tot env s.tip906 rel d txs _ next h4 hnd hinv
  have hbal := sum_map_le_combine (fun tx => outAll tx d) (fun tx => if d = .mel then tx.fee else 0)
    (fun tx => inSum rel d tx.inputs) (fun tx => issue tx d) txs
    (fun tx htx => tx_balance (h3 tx htx) d)
  rw [sum_map_feeIf] at hbal
  simp only [supply, coinsTotal_eq, e1, e2, e3, e4]
  simp only at n1 n2 n3
  rw [n2]
  by_cases hm : d = .mel
  · simp only [hm, if_true] at hbal ⊢
    subst hm
    omega
  · simp only [hm, if_false] at hbal ⊢
    omega

end Mel
