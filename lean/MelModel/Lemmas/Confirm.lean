/- helper lemmas for C14 -/
import MelModel.Chain
namespace Mel
end Mel
