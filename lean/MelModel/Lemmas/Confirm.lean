/- helper lemmas for C14 -/
import MelModel.Chain
namespace Mel

theorem sum_map_add' {α} (l : List α) (f g : α → Nat) :
    (l.map fun x => f x + g x).sum = (l.map f).sum + (l.map g).sum := by
  induction l with
  | nil => simp
  | cons a t ih => simp only [List.map_cons, List.sum_cons, ih]; omega

theorem sum_map_zero' {α} (l : List α) : (l.map fun _ => 0).sum = 0 := by
  induction l with
  | nil => simp
  | cons a t ih => simp only [List.map_cons, List.sum_cons, ih]

/-- over a duplicate-free key list, a key is hit at most once -/
theorem sum_map_ite_eq (l : List Bytes) (p : Bytes) (n : Nat) (hnd : l.Nodup) :
    (l.map fun k => if p = k then n else 0).sum = if p ∈ l then n else 0 := by
  induction l with
  | nil => simp
  | cons a t ih =>
    have h := List.nodup_cons.mp hnd
    simp only [List.map_cons, List.sum_cons, ih h.2, List.mem_cons]
    by_cases hp : p = a
    · subst hp; simp [h.1]
    · simp [hp]

namespace StakeSet

theorem votes_nil (ep : Nat) (k : Bytes) : votes ([] : StakeSet) ep k = 0 := by
  simp [votes]

theorem votes_cons (d : Hash × StakeDoc) (s : StakeSet) (ep : Nat) (k : Bytes) :
    votes (d :: s) ep k
      = (if active ep d.2 = true then (if d.2.pubkey = k then d.2.symsStaked else 0) else 0)
        + votes s ep k := by
  unfold votes
  by_cases ha : active ep d.2 = true <;> by_cases hk : d.2.pubkey = k <;>
    simp [ha, hk]

theorem totalVotes_nil (ep : Nat) : totalVotes ([] : StakeSet) ep = 0 := by
  simp [totalVotes]

theorem totalVotes_cons (d : Hash × StakeDoc) (s : StakeSet) (ep : Nat) :
    totalVotes (d :: s) ep
      = (if active ep d.2 = true then d.2.symsStaked else 0) + totalVotes s ep := by
  unfold totalVotes
  by_cases ha : active ep d.2 = true <;> simp [ha]

/-- a duplicate-free key list containing every active stake's key tallies the full voting power -/
theorem sum_votes_eq_total (s : StakeSet) (ep : Nat) (keys : List Bytes) (hnd : keys.Nodup)
    (hall : ∀ d ∈ s, active ep d.2 = true → d.2.pubkey ∈ keys) :
    (keys.map fun k => votes s ep k).sum = totalVotes s ep := by
  induction s with
  | nil => simp only [votes_nil, totalVotes_nil]; exact sum_map_zero' keys
  | cons d t ih =>
    have ih' := ih (fun x hx => hall x (List.mem_cons_of_mem _ hx))
    simp only [votes_cons, totalVotes_cons]
    rw [sum_map_add' keys
          (fun k => if active ep d.2 = true then (if d.2.pubkey = k then d.2.symsStaked else 0) else 0)
          (fun k => votes t ep k), ih']
    congr 1
    by_cases ha : active ep d.2 = true
    · simp only [ha, if_true]
      rw [sum_map_ite_eq keys _ _ hnd, if_pos (hall d (List.mem_cons_self ..) ha)]
    · have ha' : active ep d.2 = false := by simpa using ha
      simp only [ha', Bool.false_eq_true, if_false]
      exact sum_map_zero' keys

/-- in general, a duplicate-free key list never tallies more than the total -/
theorem sum_votes_le_total (s : StakeSet) (ep : Nat) (keys : List Bytes) (hnd : keys.Nodup) :
    (keys.map fun k => votes s ep k).sum ≤ totalVotes s ep := by
  induction s with
  | nil => simp only [votes_nil, totalVotes_nil]; rw [sum_map_zero' keys]; exact Nat.le_refl _
  | cons d t ih =>
    simp only [votes_cons, totalVotes_cons]
    rw [sum_map_add' keys
          (fun k => if active ep d.2 = true then (if d.2.pubkey = k then d.2.symsStaked else 0) else 0)
          (fun k => votes t ep k)]
    apply Nat.add_le_add _ ih
    by_cases ha : active ep d.2 = true
    · simp only [ha, if_true]
      rw [sum_map_ite_eq keys _ _ hnd]
      split <;> omega
    · have ha' : active ep d.2 = false := by simpa using ha
      simp only [ha', Bool.false_eq_true, if_false]
      rw [sum_map_zero' keys]; exact Nat.zero_le _

end StakeSet

namespace ConfirmL

/-- the saturating fold is the exact sum capped at `u128::MAX` -/
theorem satFold_eq_min : ∀ (l : List Nat) (a : Nat), a ≤ U128_MAX →
    l.foldl satAdd128 a = min (a + l.sum) U128_MAX := by
  intro l
  induction l with
  | nil => intro a ha; simp only [List.foldl_nil, List.sum_nil]; omega
  | cons x t ih =>
    intro a ha
    simp only [List.foldl_cons, List.sum_cons]
    rw [ih (satAdd128 a x) (by unfold satAdd128; omega)]
    unfold satAdd128
    omega

theorem satSum_eq_min (l : List Nat) : satSum l = min l.sum U128_MAX := by
  unfold satSum
  rw [satFold_eq_min l 0 (Nat.zero_le _)]
  simp

/-- capping every summand first does not change the capped sum -/
theorem min_sum_map_satU128 {α} (l : List α) (f : α → Nat) :
    min (l.map fun x => satU128 (f x)).sum U128_MAX = min (l.map f).sum U128_MAX := by
  induction l with
  | nil => simp
  | cons a t ih =>
    simp only [List.map_cons, List.sum_cons]
    unfold satU128 at ih ⊢
    omega

/-- the saturating tally of the per-key saturating votes is the exact tally capped at `u128::MAX` -/
theorem satSum_votes {α} (l : List α) (f : α → Nat) :
    satSum (l.map fun x => satU128 (f x)) = min (l.map f).sum U128_MAX := by
  rw [satSum_eq_min, min_sum_map_satU128]

/-- below a total that fits, the capped tally decides exactly like the exact tally -/
theorem capped_decision (present total : Nat) (ht : total < U128_MAX) :
    (min present U128_MAX * 3 > satU128 total * 2) ↔ (present * 3 > total * 2) := by
  unfold satU128
  omega

end ConfirmL

/-- `confirm` with the header already computed, in its literal (saturating) form -/
theorem confirm_eq_sat (env : Env) (ss : Sealed) (hdr : Header) (proof : List (Bytes × Bytes))
    (hh : headerOf env ss = .ok hdr) :
    confirm env ss proof =
      if !(proof.all fun e => e.2.length = 64 && env.vm.sigOk e.1 (env.hdrHash hdr) e.2) then .ok false
      else if satU128 (ss.st.stakes.totalVotes ss.st.epoch) = U128_MAX then .ok false
           else .ok (decide (satSum (proof.map fun e => satU128 (ss.st.stakes.votes ss.st.epoch e.1)) * 3
                              > satU128 (ss.st.stakes.totalVotes ss.st.epoch) * 2)) := by
  unfold confirm
  rw [hh]
  rfl

/-- `confirm` with the header already computed: a total that reaches `u128::MAX` confirms nothing;
    below that, the saturating tallies decide exactly like the exact sums -/
theorem confirm_eq (env : Env) (ss : Sealed) (hdr : Header) (proof : List (Bytes × Bytes))
    (hh : headerOf env ss = .ok hdr) :
    confirm env ss proof =
      if !(proof.all fun e => e.2.length = 64 && env.vm.sigOk e.1 (env.hdrHash hdr) e.2) then .ok false
      else if ss.st.stakes.totalVotes ss.st.epoch ≥ U128_MAX then .ok false
           else .ok (decide ((proof.map fun e => ss.st.stakes.votes ss.st.epoch e.1).sum * 3
                              > ss.st.stakes.totalVotes ss.st.epoch * 2)) := by
  rw [confirm_eq_sat env ss hdr proof hh]
  split
  · rfl
  · by_cases ht : ss.st.stakes.totalVotes ss.st.epoch ≥ U128_MAX
    · have : satU128 (ss.st.stakes.totalVotes ss.st.epoch) = U128_MAX := by unfold satU128; omega
      rw [if_pos this, if_pos ht]
    · have : ¬ satU128 (ss.st.stakes.totalVotes ss.st.epoch) = U128_MAX := by unfold satU128; omega
      rw [if_neg this, if_neg ht]
      congr 1
      apply decide_eq_decide.mpr
      rw [ConfirmL.satSum_votes proof (fun e => ss.st.stakes.votes ss.st.epoch e.1)]
      exact ConfirmL.capped_decision _ _ (by omega)

/-- a crash of `confirm` can only be the crash of the header computation -/
theorem confirm_crash_iff (env : Env) (ss : Sealed) (proof : List (Bytes × Bytes)) (site : String) :
    confirm env ss proof = .crash site ↔ headerOf env ss = .crash site := by
  unfold confirm
  cases hh : headerOf env ss with
  | ok hdr =>
    simp only [Outcome.bind]
    constructor
    · intro h
      split at h
      · cases h
      · split at h <;> cases h
    · intro h; cases h
  | reject e => simp [Outcome.bind]
  | crash s => simp [Outcome.bind]

end Mel
