/-
  Data types of the state-transition function (mirrors the parts of `melstructs` the STF uses).
  Hashes are opaque 32-byte strings; they are supplied by the implementation (see DESIGN §2.2).
-/
import MelModel.Prim.Bytes
namespace Mel

abbrev Hash := Bytes          -- 32 bytes
abbrev Height := Nat          -- u64
abbrev Value128 := Nat        -- u128 / CoinValue

def zeroHash : Hash := List.replicate 32 0

inductive Denom where
  | mel | sym | erg | newCustom
  | custom (h : Hash)
  deriving DecidableEq, Repr, Inhabited

/-- `Denom::to_bytes` -/
def Denom.toBytes : Denom → Bytes
  | .mel => [109]       -- "m"
  | .sym => [115]       -- "s"
  | .erg => [100]       -- "d"
  | .newCustom => []
  | .custom h => h

/-- `Denom::from_bytes` -/
def Denom.fromBytes (b : Bytes) : Option Denom :=
  if b = [109] then some .mel
  else if b = [115] then some .sym
  else if b = [100] then some .erg
  else if b = [] then some .newCustom
  else if b.length = 32 then some (.custom b)
  else none

inductive TxKind where
  | normal | stake | doscMint | swap | liqDeposit | liqWithdraw | faucet
  deriving DecidableEq, Repr, Inhabited

def TxKind.toNat : TxKind → Nat
  | .normal => 0x00 | .stake => 0x10 | .doscMint => 0x50 | .swap => 0x51
  | .liqDeposit => 0x52 | .liqWithdraw => 0x53 | .faucet => 0xff

def TxKind.ofNat? (n : Nat) : Option TxKind :=
  if n = 0x00 then some .normal else if n = 0x10 then some .stake
  else if n = 0x50 then some .doscMint else if n = 0x51 then some .swap
  else if n = 0x52 then some .liqDeposit else if n = 0x53 then some .liqWithdraw
  else if n = 0xff then some .faucet else none

inductive NetID where
  | testnet | custom02 | custom03 | custom04 | custom05 | custom06 | custom07 | custom08 | mainnet
  deriving DecidableEq, Repr, Inhabited

def NetID.toNat : NetID → Nat
  | .testnet => 1 | .custom02 => 2 | .custom03 => 3 | .custom04 => 4 | .custom05 => 5
  | .custom06 => 6 | .custom07 => 7 | .custom08 => 8 | .mainnet => 255

def NetID.ofNat? (n : Nat) : Option NetID :=
  if n = 1 then some .testnet else if n = 2 then some .custom02 else if n = 3 then some .custom03
  else if n = 4 then some .custom04 else if n = 5 then some .custom05 else if n = 6 then some .custom06
  else if n = 7 then some .custom07 else if n = 8 then some .custom08 else if n = 255 then some .mainnet
  else none

structure CoinID where
  txhash : Hash
  index : Nat          -- u8
  deriving DecidableEq, Repr, Inhabited

structure CoinData where
  covhash : Hash
  value : Value128
  denom : Denom
  additionalData : Bytes
  deriving DecidableEq, Repr, Inhabited

structure CoinDataHeight where
  coinData : CoinData
  height : Height
  deriving DecidableEq, Repr, Inhabited

structure StakeDoc where
  pubkey : Bytes
  eStart : Nat
  ePostEnd : Nat
  symsStaked : Value128
  deriving DecidableEq, Repr, Inhabited

/-- A transaction together with the externally computed facts about it
    (hash without signatures, serialised length, hash of every covenant). -/
structure Tx where
  kind : TxKind
  inputs : List CoinID
  outputs : List CoinData
  fee : Value128
  covenants : List Bytes
  data : Bytes
  sigs : List Bytes
  /-- `hash_nosigs()` — supplied -/
  hash : Hash
  /-- `stdcode::serialize(self).len()` — supplied -/
  rawLen : Nat
  /-- `tmelcrypt::hash_single(cov)` for each covenant, in order — supplied -/
  covHashes : List Hash
  /-- `stdcode::deserialize::<StakeDoc>(data)` — supplied (only consulted for `Stake` txs) -/
  stakeDoc : Option StakeDoc := none
  /-- difficulty of `stdcode::deserialize::<(u32, Vec<u8>)>(data)`, if it decodes — supplied -/
  powDifficulty : Option Nat := none
  /-- `melpow::Proof::from_bytes(proof_bytes).is_some()` — supplied -/
  powProofParses : Bool := false
  deriving DecidableEq, Repr, Inhabited

structure Header where
  network : NetID
  previous : Hash
  height : Height
  historyHash : Hash
  coinsHash : Hash
  transactionsHash : Hash
  feePool : Value128
  feeMultiplier : Nat
  doscSpeed : Nat
  poolsHash : Hash
  stakesHash : Hash
  deriving DecidableEq, Repr, Inhabited

structure PoolKey where
  left : Denom
  right : Denom
  deriving DecidableEq, Repr, Inhabited

structure PoolState where
  lefts : Nat
  rights : Nat
  priceAccum : Nat
  liqs : Nat
  deriving DecidableEq, Repr, Inhabited


structure ProposerAction where
  feeMultiplierDelta : Int      -- i8
  rewardDest : Hash
  deriving DecidableEq, Repr, Inhabited

def MAX_COINVAL : Nat := 2 ^ 120
def MICRO_CONVERTER : Nat := 1000000
def STAKE_EPOCH : Nat := 200000
def coinDestroy : Hash := zeroHash

end Mel
