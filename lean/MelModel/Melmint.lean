/-
  Melmint / Melswap: mirrors src/state/melmint.rs and the `PoolState` / `PoolKey` arithmetic of
  melstructs (modelled, not verified). `BigRational … .floor()` is exact `Nat` division.
-/
import MelModel.State
namespace Mel
open Mel.Gen

/-! ### pool keys -/

def Denom.rank : Denom → Nat
  | .mel => 0 | .sym => 1 | .erg => 2 | .newCustom => 3 | .custom _ => 4

/-- derived `Ord` of `Denom` -/
def Denom.lt (a b : Denom) : Bool :=
  match a, b with
  | .custom x, .custom y => bytesLt x y
  | _, _ => a.rank < b.rank

/-- derived `Ord` of `PoolKey` -/
def PoolKey.lt (a b : PoolKey) : Bool :=
  if a.left = b.left then a.right.lt b.right else a.left.lt b.left

/-- `to_canonical` -/
def PoolKey.toCanonical (k : PoolKey) : Option PoolKey :=
  if bytesLt k.left.toBytes k.right.toBytes then some k
  else if bytesLt k.right.toBytes k.left.toBytes then some { left := k.right, right := k.left }
  else none

/-- `PoolKey::new`; panics (here: default) on equal sides — only ever applied to distinct builtins -/
def PoolKey.new (x y : Denom) : PoolKey :=
  match ({ left := x, right := y } : PoolKey).toCanonical with
  | some k => k
  | none => { left := x, right := y }

/-- `PoolKey::to_bytes`. The long form is 32 zero bytes followed by the bincode (varint) encoding of
    the pair of byte strings; both lengths are at most 32, so each length prefix is one byte. -/
def PoolKey.toBytes (k : PoolKey) : Bytes :=
  if k.left = .mel then k.right.toBytes
  else if k.right = .mel then k.left.toBytes
  else zeroHash ++ [UInt8.ofNat k.left.toBytes.length] ++ k.left.toBytes
        ++ [UInt8.ofNat k.right.toBytes.length] ++ k.right.toBytes

/-- the candidate key a byte string can spell in *minimal* form -/
def PoolKey.parseMinimal (data : Bytes) : Option PoolKey :=
  if data.length > 32 then
    if data.take 32 ≠ zeroHash then none else
    match data.drop 32 with
    | ll :: rest =>
      if ll.toNat ≤ rest.length then
        match rest.drop ll.toNat with
        | lr :: rest' =>
          if lr.toNat = rest'.length then do
            let l ← Denom.fromBytes (rest.take ll.toNat)
            let r ← Denom.fromBytes rest'
            pure { left := l, right := r }
          else none
        | [] => none
      else none
    | [] => none
  else do
    let d ← Denom.fromBytes data
    ({ left := .mel, right := d } : PoolKey).toCanonical

/-- `canonical_pool_key` (melmint.rs): the one accepted spelling of a pool name. -/
def canonicalPoolKey (data : Bytes) : Option PoolKey :=
  match PoolKey.parseMinimal data with
  | some k =>
    if bytesLt k.left.toBytes k.right.toBytes && k.left ≠ .newCustom && k.right ≠ .newCustom
        && k.toBytes = data then some k else none
  | none => none

def liqTokenDenom (env : Env) (k : PoolKey) : Denom := .custom (env.liqHash k.toBytes)

def poolMelSym : PoolKey := PoolKey.new .mel .sym
def poolMelErg : PoolKey := PoolKey.new .mel .erg
def poolErgSym : PoolKey := PoolKey.new .erg .sym

/-! ### pool arithmetic (melstructs::PoolState) -/

def satU128 (n : Nat) : Nat := min n U128_MAX

/-- `multiply_frac(x, Ratio::new(n, d))`; `Ratio::new(_, 0)` panics -/
def multiplyFrac (x n d : Nat) : Outcome Nat :=
  if d = 0 then .crash "melmint.rs: Ratio::new(_, 0)" else .ok (satU128 (x * n / d))

namespace PoolState

def newEmpty : PoolState := { lefts := 0, rights := 0, priceAccum := 0, liqs := 0 }

/-- `swap_many`: returns the updated pool and `(lefts_withdrawn, rights_withdrawn)` -/
def swapMany (p : PoolState) (lefts rights : Nat) : Outcome (PoolState × Nat × Nat) :=
  let L := satAdd128 p.lefts lefts
  let R := satAdd128 p.rights rights
  if R = 0 then .crash "melswap.rs: Ratio::new(lefts, 0)"
  else if L = 0 then .crash "melswap.rs: division by a zero exchange rate"
  else
    let rw := satU128 (lefts * R * 995 / (L * 1000))
    let lw := satU128 (rights * L * 995 / (R * 1000))
    if lw > L then .crash "melswap.rs: lefts -= underflow"
    else if rw > R then .crash "melswap.rs: rights -= underflow"
    else
      let L' := L - lw
      let R' := R - rw
      if R' = 0 then .crash "melswap.rs: price_accum division by zero"
      else
        .ok ({ p with lefts := L', rights := R',
                      priceAccum := (p.priceAccum + satMul128 L' MICRO_CONVERTER / R') % 2 ^ 128 }, lw, rw)

/-- `deposit`: returns the updated pool and the liquidity created -/
def deposit (p : PoolState) (lefts rights : Nat) : Outcome (PoolState × Nat) :=
  if p.liqs = 0 then .ok ({ p with lefts := lefts, rights := rights, liqs := lefts }, lefts)
  else
    let mels := satAdd128 lefts p.lefts - p.lefts
    let tokens := satAdd128 rights p.rights - p.rights
    if p.lefts * p.rights = 0 then .crash "melswap.rs: Ratio::new(_, lefts*rights = 0)"
    else
      let dl := satU128 (Nat.sqrt (p.liqs ^ 2 * (mels * tokens) / (p.lefts * p.rights)))
      .ok ({ p with liqs := satAdd128 p.liqs dl, lefts := p.lefts + mels, rights := p.rights + tokens }, dl)

/-- `withdraw`: returns the updated pool and `(lefts, rights)` paid out -/
def withdraw (p : PoolState) (liqs : Nat) : Outcome (PoolState × Nat × Nat) :=
  if p.liqs < liqs then .crash "melswap.rs: assert!(self.liqs >= liqs)"
  else if p.liqs = 0 then .crash "melswap.rs: Ratio::new(liqs, 0)"
  else
    let newLiqs := p.liqs - liqs
    if newLiqs = 0 then .ok ({ p with liqs := 0, lefts := 0, rights := 0 }, p.lefts, p.rights)
    else
      let l := p.lefts * liqs / p.liqs
      let r := p.rights * liqs / p.liqs
      .ok ({ p with liqs := newLiqs, lefts := p.lefts - l, rights := p.rights - r }, l, r)

end PoolState

/-! ### DOSC inflation and reward -/

/-- `microergs_per_dosc`: the table entry at `height` -/
def microergsPerDosc : Nat → Nat
  | 0 => MICRO_CONVERTER
  | h + 1 => let last := microergsPerDosc h; max (last + 1) (last + last / INFLATOR_DIV)

/-- tail-recursive evaluation for the driver (same values; see `microergsIter_eq`) -/
def microergsIter (h : Nat) : Nat :=
  (List.range h).foldl (fun last _ => max (last + 1) (last + last / INFLATOR_DIV)) MICRO_CONVERTER

/-- `dosc_to_erg` -/
def doscToErg (height real : Nat) : Outcome Nat :=
  let v := microergsIter height * real / MICRO_CONVERTER
  if v > U128_MAX then .crash "melmint.rs: dosc inflated so much it doesn't fit into a u128" else .ok v

/-- `calculate_reward` -/
def calculateReward (mySpeed doscSpeed difficulty : Nat) (tip910 : Bool) : Outcome Nat :=
  if difficulty ≥ 128 then .crash "melmint.rs: 2u128.pow overflow" else
  let work := if tip910 then satMul128 (2 ^ difficulty) TIP910_WORK_FACTOR else 2 ^ difficulty
  if doscSpeed = 0 then .crash "melmint.rs: BigInt division by zero"
  else .ok (satU128 (work * mySpeed * MICRO_CONVERTER / (doscSpeed ^ 2 * REWARD_DIVISOR)))

/-! ### settlement -/

def builtinDefault : PoolState :=
  { lefts := MICRO_CONVERTER * BUILTIN_LIQ_MULT, rights := MICRO_CONVERTER * BUILTIN_LIQ_MULT,
    priceAccum := 0, liqs := MICRO_CONVERTER * BUILTIN_LIQ_MULT }

/-- a built-in pool counts as missing when it is absent or holds no liquidity at all (`fix:` for F23: before
    TIP-902 the ERG/SYM pool is an ordinary pool that its only depositor can empty again) -/
def builtinMissing (pools : AList PoolKey PoolState) (k : PoolKey) : Bool :=
  match pools.get k with
  | none => true
  | some p => p.liqs = 0

/-- `create_builtins` -/
def createBuiltins (s : State) : State :=
  let p1 := if builtinMissing s.pools poolMelSym then s.pools.set poolMelSym builtinDefault else s.pools
  let p2 := if builtinMissing p1 poolMelErg then p1.set poolMelErg builtinDefault else p1
  let p3 := if s.tip902 && builtinMissing p2 poolErgSym then p2.set poolErgSym builtinDefault else p2
  { s with pools := p3 }

def outCoinID (tx : Tx) (i : Nat) : CoinID := { txhash := tx.hash, index := i }

/-- `extract_pool_keys_sorted` -/
def extractPoolKeysSorted (txs : List Tx) : List PoolKey :=
  sortDedup PoolKey.lt (txs.filterMap fun tx => canonicalPoolKey tx.data)

/-- `transactions_for_pool` -/
def transactionsForPool (txs : List Tx) (k : PoolKey) : List Tx :=
  txs.filter fun tx => canonicalPoolKey tx.data = some k

def satSum (l : List Nat) : Nat := l.foldl satAdd128 0

/-- `get_swap_transactions` -/
def isSwapRequest (s : State) (tx : Tx) : Bool :=
  tx.kind = .swap &&
  match tx.outputs with
  | [] => false
  | o0 :: _ =>
    (s.coins.getCoin (outCoinID tx 0)).isSome && o0.value > 0 &&
    match canonicalPoolKey tx.data with
    | none => false
    | some k =>
      match s.pools.get k with
      | none => false
      | some p => p.lefts > 0 && p.rights > 0 && (o0.denom = k.left || o0.denom = k.right)

/-- `process_swaps_for_single_pool` -/
def processSwapsForPool (k : PoolKey) (s : State) (swaps : List Tx) : Outcome State :=
  match s.pools.get k with
  | none => .crash "melmint.rs: pools.get(pool).unwrap()"
  | some pool =>
    let o0 (tx : Tx) : CoinData := tx.outputs.headD default
    let totalLefts := satSum (swaps.map fun tx => if (o0 tx).denom = k.left then (o0 tx).value else 0)
    let totalRights := satSum (swaps.map fun tx => if (o0 tx).denom = k.right then (o0 tx).value else 0)
    match pool.swapMany totalLefts totalRights with
    | .crash c => .crash c
    | .reject e => .reject e
    | .ok (pool', lw, rw) =>
      let tip := s.tip906
      let r := Outcome.foldlM' (fun (coins : CoinMap) (tx : Tx) =>
        let o := o0 tx
        let res := if o.denom = k.left then (multiplyFrac rw o.value totalLefts).bind fun v =>
                      .ok ({ o with denom := k.right, value := min v MAX_COINVAL } : CoinData)
                   else (multiplyFrac lw o.value totalRights).bind fun v =>
                      .ok ({ o with denom := k.left, value := min v MAX_COINVAL } : CoinData)
        res.bind fun cd => .ok (coins.insertCoin (outCoinID tx 0) { coinData := cd, height := s.height } tip))
        s.coins swaps
      r.bind fun coins => .ok { s with coins := coins, pools := s.pools.set k pool' }

/-- `process_swaps` -/
def processSwaps (s : State) : Outcome State :=
  let reqs := s.txs.filter (isSwapRequest s)
  let pools := extractPoolKeysSorted reqs
  Outcome.foldlM' (fun st k => processSwapsForPool k st (transactionsForPool reqs k)) s pools

/-- `get_deposit_transactions` -/
def isDepositRequest (s : State) (tx : Tx) : Bool :=
  tx.kind = .liqDeposit &&
  match tx.outputs with
  | o0 :: o1 :: _ =>
    o0.value > 0 && o1.value > 0 &&
    (s.coins.getCoin (outCoinID tx 0)).isSome && (s.coins.getCoin (outCoinID tx 1)).isSome &&
    match canonicalPoolKey tx.data with
    | none => false
    | some k => o0.denom = k.left && o1.denom = k.right
  | _ => false

def legacyDeposit (s : State) : Bool :=
  (s.network = .mainnet || s.network = .testnet) && s.height < LEGACY_DEPOSIT_HEIGHT

def mtsqrt (a b : Nat) : Nat := satMul128 (Nat.sqrt a) (Nat.sqrt b)

/-- `process_deposits_for_single_pool` -/
def processDepositsForPool (env : Env) (k : PoolKey) (s : State) (deps : List Tx) : Outcome State :=
  let o0 (tx : Tx) : CoinData := tx.outputs.headD default
  let o1 (tx : Tx) : CoinData := (tx.outputs.drop 1).headD default
  let totalLefts := satSum (deps.map fun tx => (o0 tx).value)
  let totalRights := satSum (deps.map fun tx => (o1 tx).value)
  let totalMtsqrt := satSum (deps.map fun tx => mtsqrt (o0 tx).value (o1 tx).value)
  let pool := (s.pools.get k).getD PoolState.newEmpty
  match pool.deposit totalLefts totalRights with
  | .crash c => .crash c
  | .reject e => .reject e
  | .ok (pool', totalLiqs) =>
    -- the record would saturate while the full amount is handed out: the deposits are left unsettled
    -- (`issued_before.checked_add(liq).is_none()`, added by the `fix:` for K-liq-saturation)
    if pool.liqs + totalLiqs > U128_MAX then .ok s else
    let tip := s.tip906
    let r := Outcome.foldlM' (fun (coins : CoinMap) (tx : Tx) =>
      (multiplyFrac totalLiqs (mtsqrt (o0 tx).value (o1 tx).value) totalMtsqrt).bind fun v =>
        let cd : CoinData := { o0 tx with denom := liqTokenDenom env k, value := v }
        let coins1 := coins.insertCoin (outCoinID tx 0) { coinData := cd, height := s.height } tip
        -- under the legacy rule the id removed is that of the *modified* transaction: a no-op
        if legacyDeposit s then .ok coins1 else coins1.removeCoin (outCoinID tx 1) tip)
      s.coins deps
    r.bind fun coins => .ok { s with coins := coins, pools := s.pools.set k pool' }

/-- `process_deposits` -/
def processDeposits (env : Env) (s : State) : Outcome State :=
  let reqs := s.txs.filter (isDepositRequest s)
  let pools := extractPoolKeysSorted reqs
  Outcome.foldlM' (fun st k => processDepositsForPool env k st (transactionsForPool reqs k)) s pools

/-- `get_withdrawal_transactions` -/
def isWithdrawRequest (env : Env) (s : State) (tx : Tx) : Bool :=
  tx.kind = .liqWithdraw &&
  match tx.outputs with
  | [o0] =>
    o0.value > 0 && (s.coins.getCoin (outCoinID tx 0)).isSome &&
    match canonicalPoolKey tx.data with
    | none => false
    | some k => (s.pools.get k).isSome && o0.denom = liqTokenDenom env k
  | _ => false

/-- `process_withdrawals_for_single_pool` -/
def processWithdrawalsForPool (k : PoolKey) (s : State) (reqs : List Tx) : Outcome State :=
  let o0 (tx : Tx) : CoinData := tx.outputs.headD default
  let totalLiqs := satSum (reqs.map fun tx => (o0 tx).value)
  match s.pools.get k with
  | none => .crash "melmint.rs: pools.get(pool).unwrap()"
  | some pool =>
    if totalLiqs > pool.liqs then .ok s
    else match pool.withdraw totalLiqs with
    | .crash c => .crash c
    | .reject e => .reject e
    | .ok (pool', tl, tr) =>
      let tip := s.tip906
      let r := Outcome.foldlM' (fun (coins : CoinMap) (tx : Tx) =>
        let my := (o0 tx).value
        (multiplyFrac tl my totalLiqs).bind fun vl =>
        (multiplyFrac tr my totalLiqs).bind fun vr =>
          let c0 : CoinData := { o0 tx with denom := k.left, value := vl }
          let c1 : CoinData := { o0 tx with denom := k.right, value := vr }
          .ok ((coins.insertCoin (outCoinID tx 0) { coinData := c0, height := s.height } tip).insertCoin
                 (outCoinID tx 1) { coinData := c1, height := s.height } tip))
        s.coins reqs
      r.bind fun coins => .ok { s with coins := coins, pools := s.pools.set k pool' }

/-- `process_withdrawals` -/
def processWithdrawals (env : Env) (s : State) : Outcome State :=
  let reqs := s.txs.filter (isWithdrawRequest env s)
  let pools := extractPoolKeysSorted reqs
  Outcome.foldlM' (fun st k => processWithdrawalsForPool k st (transactionsForPool reqs k)) s pools

/-- `process_pegging` -/
def processPegging (s : State) : Outcome State :=
  let getPool (k : PoolKey) : Outcome PoolState :=
    match s.pools.get k with
    | some p => .ok p
    | none => .crash "melmint.rs: builtin pool missing (unwrap)"
  -- x_sd = a / b  (syms per dosc), as an exact fraction
  let xsd : Outcome (Nat × Nat) :=
    if s.tip902 then
      (getPool poolErgSym).bind fun p =>
        if p.rights = 0 then .crash "melswap.rs: implied_price Ratio::new(_, 0)"
        else if p.lefts = 0 then .crash "melmint.rs: recip of zero"
        else .ok (p.rights, p.lefts)
    else
      (getPool poolMelSym).bind fun ps =>
      (getPool poolMelErg).bind fun pd =>
        if ps.rights = 0 || pd.rights = 0 then .crash "melswap.rs: implied_price Ratio::new(_, 0)"
        else if ps.lefts = 0 || pd.lefts = 0 then .crash "melmint.rs: recip of zero"
        else .ok (ps.rights * pd.lefts, ps.lefts * pd.rights)
  xsd.bind fun (a, b) =>
  let throttler := if s.tip902 then THROTTLER_902 else THROTTLER_PRE
  (getPool poolMelSym).bind fun sm =>
  let konstant := sm.lefts * sm.rights
  let infl := microergsIter s.height
  -- desired_x_sm = infl * a / (MICRO * b)
  let num := infl * a
  let den := MICRO_CONVERTER * b
  if num = 0 then .crash "melmint.rs: division by a zero desired exchange rate" else
  let desiredMel := satU128 (Nat.sqrt (konstant * den / num))
  let desiredSym := satU128 (Nat.sqrt (konstant * num / den))
  let step1 : Outcome PoolState :=
    if desiredMel > sm.lefts then
      (sm.swapMany ((desiredMel - sm.lefts) / throttler) 0).bind fun (p, _, _) => .ok p
    else .ok sm
  step1.bind fun sm1 =>
  let step2 : Outcome PoolState :=
    if desiredSym > sm1.rights then
      (sm1.swapMany 0 ((desiredSym - sm1.rights) / throttler)).bind fun (p, _, _) => .ok p
    else .ok sm1
  step2.bind fun sm2 => .ok { s with pools := s.pools.set poolMelSym sm2 }

/-- `preseal_melmint` -/
def presealMelmint (env : Env) (s : State) : Outcome State :=
  let s0 := createBuiltins s
  if s0.pools.length < 2 then .crash "assert!(pools.count() >= 2)" else
  (processSwaps s0).bind fun s1 =>
  (processDeposits env s1).bind fun s2 =>
  (processWithdrawals env s2).bind fun s3 =>
  -- since the `fix:` for finding F24: a builtin pool emptied by the withdrawals of this block is made afresh
  -- before pegging (and, in `sealState`, the block subsidy) read its price
  processPegging (createBuiltins s3)

end Mel
