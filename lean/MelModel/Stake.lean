/-
  The stake set (mirrors lib/tip911-stakeset/src/lib.rs, pre-TIP-911 part used by the STF).
-/
import MelModel.Types
import MelModel.Prim.Map
namespace Mel

abbrev StakeSet := AList Hash StakeDoc

namespace StakeSet

def addStake (s : StakeSet) (txhash : Hash) (d : StakeDoc) : StakeSet := AList.set s txhash d
def getStake (s : StakeSet) (txhash : Hash) : Option StakeDoc := AList.get s txhash

def active (epoch : Nat) (d : StakeDoc) : Bool := d.eStart ≤ epoch && d.ePostEnd > epoch

/-- `votes(epoch, key)` -/
def votes (s : StakeSet) (epoch : Nat) (key : Bytes) : Nat :=
  ((s.filter fun e => active epoch e.2 && e.2.pubkey == key).map fun e => e.2.symsStaked).sum

/-- `total_votes(epoch)` -/
def totalVotes (s : StakeSet) (epoch : Nat) : Nat :=
  ((s.filter fun e => active epoch e.2).map fun e => e.2.symsStaked).sum

/-- `unlock_old(epoch)`: `retain(|_, v| v.e_post_end >= epoch)` -/
def unlockOld (s : StakeSet) (epoch : Nat) : StakeSet := s.filter fun e => e.2.ePostEnd ≥ epoch

end StakeSet
end Mel
