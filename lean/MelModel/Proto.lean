/-
  Text forms of the line protocol (shared with harness/src/fmt.rs). Model-side only: no proofs.
-/
import MelModel.VM.Exec
import MelModel.VM.Codec
namespace Mel.Proto
open Mel Mel.VM

def opText : Op → String
  | .noop => "noop" | .add => "add" | .sub => "sub" | .mul => "mul" | .div => "div" | .rem => "rem"
  | .exp k => s!"exp:{k.toNat}"
  | .and => "and" | .or => "or" | .xor => "xor" | .not => "not" | .eql => "eql" | .lt => "lt" | .gt => "gt"
  | .shl => "shl" | .shr => "shr"
  | .hash n => s!"hash:{n.toNat}" | .sigeok n => s!"sigeok:{n.toNat}"
  | .store => "store" | .load => "load"
  | .storeimm n => s!"storeimm:{n.toNat}" | .loadimm n => s!"loadimm:{n.toNat}"
  | .vref => "vref" | .vappend => "vappend" | .vempty => "vempty" | .vlength => "vlength"
  | .vslice => "vslice" | .vset => "vset" | .vpush => "vpush" | .vcons => "vcons"
  | .bref => "bref" | .bappend => "bappend" | .bempty => "bempty" | .blength => "blength"
  | .bslice => "bslice" | .bset => "bset" | .bpush => "bpush" | .bcons => "bcons"
  | .bez n => s!"bez:{n.toNat}" | .bnz n => s!"bnz:{n.toNat}" | .jmp n => s!"jmp:{n.toNat}"
  | .loop a b => s!"loop:{a.toNat}:{b.toNat}"
  | .itob => "itob" | .btoi => "btoi" | .typeq => "typeq"
  | .pushb b => s!"pushb:{hexOfBytes b}"
  | .pushi v => s!"pushi:{v.toNat}" | .pushic v => s!"pushic:{v.toNat}"
  | .dup => "dup"

def opsText (ops : List Op) : String :=
  if ops.isEmpty then "-" else ",".intercalate (ops.map opText)

def u16? (s : String) : Option UInt16 := do
  let n ← s.toNat?
  if n < 65536 then some (UInt16.ofNat n) else none

def u256? (s : String) : Option U256 := do
  let n ← s.toNat?
  if n < 2 ^ 256 then some (BitVec.ofNat 256 n) else none

def hexE (s : String) : Option Bytes := bytesOfHexChars s.toList

def parseOp (s : String) : Option Op :=
  match s.splitOn ":" with
  | ["noop"] => some .noop | ["add"] => some .add | ["sub"] => some .sub | ["mul"] => some .mul
  | ["div"] => some .div | ["rem"] => some .rem
  | ["exp", k] => do let n ← k.toNat?; if n < 256 then some (.exp (UInt8.ofNat n)) else none
  | ["and"] => some .and | ["or"] => some .or | ["xor"] => some .xor | ["not"] => some .not
  | ["eql"] => some .eql | ["lt"] => some .lt | ["gt"] => some .gt | ["shl"] => some .shl | ["shr"] => some .shr
  | ["hash", n] => (u16? n).map .hash | ["sigeok", n] => (u16? n).map .sigeok
  | ["store"] => some .store | ["load"] => some .load
  | ["storeimm", n] => (u16? n).map .storeimm | ["loadimm", n] => (u16? n).map .loadimm
  | ["vref"] => some .vref | ["vappend"] => some .vappend | ["vempty"] => some .vempty
  | ["vlength"] => some .vlength | ["vslice"] => some .vslice | ["vset"] => some .vset
  | ["vpush"] => some .vpush | ["vcons"] => some .vcons
  | ["bref"] => some .bref | ["bappend"] => some .bappend | ["bempty"] => some .bempty
  | ["blength"] => some .blength | ["bslice"] => some .bslice | ["bset"] => some .bset
  | ["bpush"] => some .bpush | ["bcons"] => some .bcons
  | ["bez", n] => (u16? n).map .bez | ["bnz", n] => (u16? n).map .bnz | ["jmp", n] => (u16? n).map .jmp
  | ["loop", a, b] => do let a ← u16? a; let b ← u16? b; some (.loop a b)
  | ["itob"] => some .itob | ["btoi"] => some .btoi | ["typeq"] => some .typeq
  | ["pushb", h] => (hexE h).map .pushb
  | ["pushi", v] => (u256? v).map .pushi | ["pushic", v] => (u256? v).map .pushic
  | ["dup"] => some .dup
  | _ => none

def parseOps (s : String) : Option (List Op) :=
  if s = "-" then some [] else (s.splitOn ",").mapM parseOp

partial def valueText : Value → String
  | .int v => s!"i{v.toNat}"
  | .bytes b => s!"x{hexOfBytes b}"
  | .vec l => "[" ++ ",".intercalate (l.map valueText) ++ "]"

/-- recursive-descent parser for value text -/
partial def parseValue (cs : List Char) : Option (Value × List Char) :=
  match cs with
  | 'i' :: rest =>
    let ds := rest.takeWhile Char.isDigit
    if ds.isEmpty then none else
      (String.ofList ds).toNat?.map fun n => (.int (BitVec.ofNat 256 n), rest.dropWhile Char.isDigit)
  | 'x' :: rest =>
    let isHex (c : Char) := c.isDigit || ('a' ≤ c && c ≤ 'f')
    let hs := rest.takeWhile isHex
    (bytesOfHexChars hs).map fun b => (.bytes b, rest.dropWhile isHex)
  | '[' :: ']' :: rest => some (.vec [], rest)
  | '[' :: rest =>
    let rec items (cs : List Char) (acc : List Value) : Option (List Value × List Char) :=
      match parseValue cs with
      | none => none
      | some (v, ',' :: cs') => items cs' (v :: acc)
      | some (v, ']' :: cs') => some ((v :: acc).reverse, cs')
      | some _ => none
    (items rest []).map fun (l, r) => (.vec l, r)
  | _ => none

def parseValueStr (s : String) : Option Value :=
  match parseValue s.toList with
  | some (v, []) => some v
  | _ => none

def parseHeap (s : String) : Option Heap :=
  if s = "-" then some [] else
    (s.splitOn ";").mapM fun kv =>
      match kv.splitOn "=" with
      | [k, v] => do let k ← k.toNat?; let v ← parseValueStr v; some (k, v)
      | _ => none

/-- oracle answers shipped with an operation: hash table and signature table -/
structure OracleTable where
  hashes : List (Bytes × Bytes) := []
  sigs : List (Bytes × Bytes × Bytes × Bool) := []
  deriving Inhabited

def parseOracles (s : String) : Option OracleTable :=
  if s = "-" then some {} else
    (s.splitOn ",").foldlM (init := ({} : OracleTable)) fun t item =>
      match item.splitOn ":" with
      | ["h", i, o] => do let i ← hexE i; let o ← hexE o; some { t with hashes := (i, o) :: t.hashes }
      | ["s", pk, m, sg, ok] => do
        let pk ← hexE pk; let m ← hexE m; let sg ← hexE sg
        some { t with sigs := (pk, m, sg, ok == "1") :: t.sigs }
      | _ => none

/-- marker returned by the table oracle when the model asks for an answer the implementation
    never computed (that is a disagreement). -/
def ORACLE_MISS : Bytes := [0x6d, 0x69, 0x73, 0x73]   -- "miss"

def OracleTable.toOracles (t : OracleTable) : Oracles where
  hash := fun i => match t.hashes.find? (·.1 == i) with
    | some (_, o) => o
    | none => ORACLE_MISS
  sigOk := fun pk m s => match t.sigs.find? (fun e => e.1 == pk && e.2.1 == m && e.2.2.1 == s) with
    | some e => e.2.2.2
    | none => false

end Mel.Proto
