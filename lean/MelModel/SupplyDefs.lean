/-
  Total supply of a denomination (the quantity C01 is about). Definitions only.
-/
import MelModel.State
namespace Mel

/-- total value of the unspent coins of denomination `d` -/
def coinsTotal (m : CoinMap) (d : Denom) : Nat :=
  ((m.coins.filter fun e => e.2.coinData.denom = d).map fun e => e.2.coinData.value).sum

/-- reserves of denomination `d` held by the pools -/
def poolsTotal (pools : AList PoolKey PoolState) (d : Denom) : Nat :=
  (pools.map fun e => (if e.1.left = d then e.2.lefts else 0) + (if e.1.right = d then e.2.rights else 0)).sum

/-- **total supply** of a denomination: unspent coins + pool reserves, plus for MEL the fee pool and pending tips -/
def supply (s : State) (d : Denom) : Nat :=
  coinsTotal s.coins d + poolsTotal s.pools d + (if d = .mel then s.feePool + s.tips else 0)

/-- the denomination an output is created in -/
def createdDenom (tx : Tx) (o : CoinData) : Denom := if o.denom = .newCustom then .custom tx.hash else o.denom

end Mel
