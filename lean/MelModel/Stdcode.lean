/-
  `stdcode` (bincode 1.3 with varint integer encoding, little-endian literals, trailing bytes rejected) for the three
  places where the state transition function reads or measures serialised data:
    * `stdcode::deserialize::<StakeDoc>(&tx.data)`            (`load_stake_info`, applytx.rs)
    * `stdcode::deserialize::<(u32, Vec<u8>)>(&tx.data)`      (`validate_and_get_doscmint_speed`, applytx.rs)
    * `stdcode::serialize(tx).len()`                          (`Transaction::weight`, the size term of the fee)
  Model file: no Mathlib, no proofs.  Tied to the real crates by the `stdcode` stream (decoders, on valid, non-minimal,
  truncated, over-long and random byte strings) and by the `rawlen=` check of every transaction line of every state stream.
-/
import MelModel.Types
namespace Mel.Stdcode
open Mel

/-- little-endian value of a byte string -/
def fromLE : Bytes → Nat
  | [] => 0
  | b :: rest => b.toNat + 256 * fromLE rest

/-- `n`-byte little-endian representation of `v mod 256^n` -/
def toLE : Nat → Nat → Bytes
  | 0, _ => []
  | n + 1, v => UInt8.ofNat (v % 256) :: toLE n (v / 256)

/-- read exactly `n` bytes -/
def takeN (n : Nat) (bs : Bytes) : Option (Bytes × Bytes) :=
  if n ≤ bs.length then some (bs.take n, bs.drop n) else none

/-- `deserialize_varint` (u16/u32/u64/usize fields): marker 254 (a u128 literal) and 255 are errors -/
def getVarint64 : Bytes → Option (Nat × Bytes)
  | [] => none
  | b :: rest =>
    if b.toNat ≤ 250 then some (b.toNat, rest)
    else if b.toNat = 251 then (takeN 2 rest).map fun (x, r) => (fromLE x, r)
    else if b.toNat = 252 then (takeN 4 rest).map fun (x, r) => (fromLE x, r)
    else if b.toNat = 253 then (takeN 8 rest).map fun (x, r) => (fromLE x, r)
    else none

/-- `deserialize_varint128` (u128 fields) -/
def getVarint128 : Bytes → Option (Nat × Bytes)
  | [] => none
  | b :: rest =>
    if b.toNat ≤ 250 then some (b.toNat, rest)
    else if b.toNat = 251 then (takeN 2 rest).map fun (x, r) => (fromLE x, r)
    else if b.toNat = 252 then (takeN 4 rest).map fun (x, r) => (fromLE x, r)
    else if b.toNat = 253 then (takeN 8 rest).map fun (x, r) => (fromLE x, r)
    else if b.toNat = 254 then (takeN 16 rest).map fun (x, r) => (fromLE x, r)
    else none

/-- `serialize_varint128` (and `serialize_varint` for values below 2^64): the shortest form -/
def putVarint (n : Nat) : Bytes :=
  if n ≤ 250 then [UInt8.ofNat n]
  else if n < 2 ^ 16 then 251 :: toLE 2 n
  else if n < 2 ^ 32 then 252 :: toLE 4 n
  else if n < 2 ^ 64 then 253 :: toLE 8 n
  else 254 :: toLE 16 n

/-- length of `putVarint n` without building it -/
def varintLen (n : Nat) : Nat :=
  if n ≤ 250 then 1 else if n < 2 ^ 16 then 3 else if n < 2 ^ 32 then 5 else if n < 2 ^ 64 then 9 else 17

/-- a length-prefixed byte string (`Vec<u8>`, `Bytes`, `HexBytes`) -/
def getBytes (bs : Bytes) : Option (Bytes × Bytes) :=
  match getVarint64 bs with
  | none => none
  | some (len, rest) => takeN len rest

def putBytes (b : Bytes) : Bytes := putVarint b.length ++ b

/-- `stdcode::deserialize::<StakeDoc>`: 32 raw key bytes, two u64 varints, one u128 varint, nothing after -/
def decodeStakeDoc (bs : Bytes) : Option StakeDoc :=
  match takeN 32 bs with
  | none => none
  | some (pk, r₁) =>
    match getVarint64 r₁ with
    | none => none
    | some (eStart, r₂) =>
      match getVarint64 r₂ with
      | none => none
      | some (ePostEnd, r₃) =>
        match getVarint128 r₃ with
        | none => none
        | some (syms, r₄) =>
          if r₄ = [] then some { pubkey := pk, eStart := eStart, ePostEnd := ePostEnd, symsStaked := syms } else none

/-- `StakeDoc::stdcode()` -/
def encodeStakeDoc (d : StakeDoc) : Bytes :=
  d.pubkey ++ putVarint d.eStart ++ putVarint d.ePostEnd ++ putVarint d.symsStaked

/-- a stake document whose fields have the widths of the Rust type -/
def StakeDoc.Fits (d : StakeDoc) : Prop :=
  d.pubkey.length = 32 ∧ d.eStart < 2 ^ 64 ∧ d.ePostEnd < 2 ^ 64 ∧ d.symsStaked < 2 ^ 128

/-- `stdcode::deserialize::<(u32, Vec<u8>)>`: a varint that must fit a u32, a length-prefixed byte string, nothing after -/
def decodePow (bs : Bytes) : Option (Nat × Bytes) :=
  match getVarint64 bs with
  | none => none
  | some (d, r₁) =>
    if d < 2 ^ 32 then
      match getBytes r₁ with
      | none => none
      | some (proof, r₂) => if r₂ = [] then some (d, proof) else none
    else none

def encodePow (difficulty : Nat) (proof : Bytes) : Bytes := putVarint difficulty ++ putBytes proof

/-- serialised length of a `CoinData`: 32 bytes of covenant hash, the value, the denomination's bytes and the
    additional data as length-prefixed byte strings -/
def coinDataLen (c : CoinData) : Nat :=
  32 + varintLen c.value + (varintLen c.denom.toBytes.length + c.denom.toBytes.length)
    + (varintLen c.additionalData.length + c.additionalData.length)

def bytesLen (b : Bytes) : Nat := varintLen b.length + b.length

/-- `stdcode::serialize(tx).len()`: kind (one byte), inputs (33 bytes each), outputs, fee, covenants, data, sigs -/
def txLen (tx : Tx) : Nat :=
  1 + (varintLen tx.inputs.length + 33 * tx.inputs.length)
    + (varintLen tx.outputs.length + (tx.outputs.map coinDataLen).sum)
    + varintLen tx.fee
    + (varintLen tx.covenants.length + (tx.covenants.map bytesLen).sum)
    + bytesLen tx.data
    + (varintLen tx.sigs.length + (tx.sigs.map bytesLen).sum)


/-! ### the serialisation itself (`stdcode::serialize(tx)`): what `txLen` measures and what the transaction hashes are taken of -/

def encodeCoinID (c : CoinID) : Bytes := c.txhash ++ [UInt8.ofNat c.index]

def encodeCoinData (c : CoinData) : Bytes :=
  c.covhash ++ putVarint c.value ++ putBytes c.denom.toBytes ++ putBytes c.additionalData

/-- a sequence: its length as a varint, then the elements -/
def encodeList {α} (f : α → Bytes) (l : List α) : Bytes := putVarint l.length ++ l.flatMap f

/-- `stdcode::serialize(tx)`: kind byte, inputs, outputs, fee, covenants, data, signatures -/
def encodeTx (tx : Tx) : Bytes :=
  [UInt8.ofNat tx.kind.toNat] ++ encodeList encodeCoinID tx.inputs ++ encodeList encodeCoinData tx.outputs
    ++ putVarint tx.fee ++ encodeList putBytes tx.covenants ++ putBytes tx.data ++ encodeList putBytes tx.sigs

/-- the preimage of `hash_nosigs`: the serialisation with the signatures cleared -/
def encodeTxNoSigs (tx : Tx) : Bytes := encodeTx { tx with sigs := [] }

/-- a denomination as the Rust type can hold it: a custom token's name is a 32-byte hash -/
def DenomOk : Denom → Prop
  | .custom h => h.length = 32
  | _ => True

/-- a transaction as the Rust types can hold it: hashes of 32 bytes, indices below 256, values below 2^128, lengths
    below 2^64 -/
structure TxOk (tx : Tx) : Prop where
  inputs : ∀ c ∈ tx.inputs, c.txhash.length = 32 ∧ c.index < 256
  outputs : ∀ o ∈ tx.outputs, o.covhash.length = 32 ∧ o.value < 2 ^ 128 ∧ DenomOk o.denom ∧ o.additionalData.length < 2 ^ 64
  fee : tx.fee < 2 ^ 128
  counts : tx.inputs.length < 2 ^ 64 ∧ tx.outputs.length < 2 ^ 64 ∧ tx.covenants.length < 2 ^ 64 ∧ tx.sigs.length < 2 ^ 64
  covenants : ∀ c ∈ tx.covenants, c.length < 2 ^ 64
  data : tx.data.length < 2 ^ 64
  sigs : ∀ c ∈ tx.sigs, c.length < 2 ^ 64


/-- `stdcode::serialize(header)`, the preimage of the header hash: network byte, previous (32), height, three roots (32 each),
    fee pool, fee multiplier, DOSC speed, two roots -/
def encodeHeader (h : Header) : Bytes :=
  [UInt8.ofNat h.network.toNat] ++ h.previous ++ putVarint h.height ++ h.historyHash ++ h.coinsHash ++ h.transactionsHash
    ++ putVarint h.feePool ++ putVarint h.feeMultiplier ++ putVarint h.doscSpeed ++ h.poolsHash ++ h.stakesHash

/-- a header as the Rust type can hold it -/
structure HeaderOk (h : Header) : Prop where
  hashes : h.previous.length = 32 ∧ h.historyHash.length = 32 ∧ h.coinsHash.length = 32 ∧ h.transactionsHash.length = 32 ∧
    h.poolsHash.length = 32 ∧ h.stakesHash.length = 32
  height : h.height < 2 ^ 64
  amounts : h.feePool < 2 ^ 128 ∧ h.feeMultiplier < 2 ^ 128 ∧ h.doscSpeed < 2 ^ 128

/-- `stdcode::serialize(coin_id)`, the preimage of a coin's key in the coin tree and part of the MelPoW puzzle -/
def encodeCoinIDKey (c : CoinID) : Bytes := encodeCoinID c

/-- what the harness supplies next to a transaction agrees with what the model computes from its content -/
def suppliedAgrees (tx : Tx) : Bool :=
  tx.rawLen == txLen tx && tx.stakeDoc == decodeStakeDoc tx.data &&
  tx.powDifficulty == (decodePow tx.data).map (·.1)

end Mel.Stdcode
