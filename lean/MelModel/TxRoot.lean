/-
  The TIP-908 transactions commitment as `src/state.rs` builds it (`tip908_transactions`, `transaction_sorted_posn`):
  one leaf per transaction — its signature-free hash followed by the hash of its serialisation —, the leaves sorted as
  byte strings, a dense Merkle tree over them; a transaction's position is its index among the block's signature-free
  hashes in ascending order (the transaction set is a map keyed by that hash).
  Definitions only (the dense tree itself is in Merkle.lean); theorems in Props/C07TxRoot.lean.  The tie to the code is the
  harness's facts `txroot-matches-spec`, `tx-membership-provable`, `tx-position-is-rank-absent-has-none`, which rebuild
  exactly this from the block's transactions with novasmt and compare with the header and the accessor.
-/
import MelModel.Merkle
import MelModel.Prim.Map
namespace Mel.TxRoot
open Mel Mel.Merkle

/-- non-strict lexicographic order on byte strings (Rust's `Ord for Vec<u8>` / `[u8; 32]`) -/
def bytesLe (a b : Bytes) : Bool := !bytesLt b a

/-- a leaf: signature-free hash, then the hash of the serialised transaction -/
def leafOf (nosigs full : Hash) : Bytes := nosigs ++ full

/-- `vv.sort_unstable()` -/
def sortedLeaves (leaves : List Bytes) : List Bytes := leaves.mergeSort (fun a b => bytesLe a b)

/-- `tip908_transactions().root_hash()` -/
def tip908Root (H : Hashers) (leaves : List Bytes) : Hash := denseRoot H (sortedLeaves leaves)

/-- `transaction_sorted_posn`: the index of the hash among the block's signature-free hashes in ascending order -/
def sortedPosn (hashes : List Hash) (h : Hash) : Option Nat :=
  let sorted := hashes.mergeSort (fun a b => bytesLe a b)
  match sorted.findIdx? (fun k => k == h) with
  | some i => some i
  | none => none

end Mel.TxRoot
