/-
  The genesis state (mirrors `GenesisConfig::realize`, src/genesis.rs).
-/
import MelModel.State
namespace Mel

/-- `GenesisConfig` -/
structure GenesisConfig where
  network : NetID
  initCoindata : CoinData
  /-- `stakes: HashMap<TxHash, StakeDoc>` (the list order is the iteration order; keys are unique) -/
  stakes : List (Hash × StakeDoc)
  initFeePool : Nat
  initFeeMultiplier : Nat
  deriving Repr, Inhabited

/-- `GenesisConfig::realize`: height 0, empty history / pools / transactions, DOSC speed 10^6, the one initial
    coin at `CoinID::zero_zero()` -/
def genesisState (cfg : GenesisConfig) : State :=
  let proto : State :=
    { network := cfg.network, height := 0, history := [], coins := {}, txs := [], feePool := cfg.initFeePool,
      feeMultiplier := cfg.initFeeMultiplier, tips := 0, doscSpeed := MICRO_CONVERTER, pools := [],
      stakes := cfg.stakes.foldl (fun m e => StakeSet.addStake m e.1 e.2) [] }
  { proto with coins := ({} : CoinMap).insertCoin { txhash := zeroHash, index := 0 }
                          { coinData := cfg.initCoindata, height := 0 } proto.tip906 }

end Mel
