/-
  Line-protocol text forms for transactions, headers, states (shared with harness/src/statefmt.rs).
  Driver-side only: no proofs.
-/
import MelModel.Proto
import MelModel.Chain
namespace Mel.Proto
open Mel Mel.VM

def denomOfHex (s : String) : Option Denom := (hexE s).bind Denom.fromBytes

def parseCoinID (s : String) : Option CoinID :=
  match s.splitOn ":" with
  | [h, i] => do let h ← hexE h; let i ← i.toNat?; some { txhash := h, index := i }
  | _ => none

def parseCoinData (s : String) : Option CoinData :=
  match s.splitOn ":" with
  | [c, v, d, a] => do
    let c ← hexE c; let v ← v.toNat?; let d ← denomOfHex d; let a ← hexE a
    some { covhash := c, value := v, denom := d, additionalData := a }
  | _ => none

def parseList {α} (sep : String) (f : String → Option α) (s : String) : Option (List α) :=
  if s = "-" then some [] else (s.splitOn sep).mapM f

def parseStakeDoc (s : String) : Option StakeDoc :=
  match s.splitOn ":" with
  | [pk, a, b, c] => do
    let pk ← hexE pk; let a ← a.toNat?; let b ← b.toNat?; let c ← c.toNat?
    some { pubkey := pk, eStart := a, ePostEnd := b, symsStaked := c }
  | _ => none

def parseTx (s : String) : Option Tx :=
  match s.splitOn "|" with
  | [kind, ins, outs, fee, covs, data, sigs, hash, rawlen, covhashes, stakedoc, pow] => do
    let kind ← kind.toNat? >>= TxKind.ofNat?
    let ins ← parseList "," parseCoinID ins
    let outs ← parseList "," parseCoinData outs
    let fee ← fee.toNat?
    let covs ← parseList "," hexE covs
    let data ← hexE data
    let sigs ← parseList "," hexE sigs
    let hash ← hexE hash
    let rawlen ← rawlen.toNat?
    let covhashes ← parseList "," hexE covhashes
    let sd := if stakedoc = "-" then none else parseStakeDoc stakedoc
    let (pd, pp) := match pow.splitOn ":" with
      | [d, p] => (d.toNat?, p == "1")
      | _ => (none, false)
    some { kind := kind, inputs := ins, outputs := outs, fee := fee, covenants := covs, data := data,
           sigs := sigs, hash := hash, rawLen := rawlen, covHashes := covhashes, stakeDoc := sd,
           powDifficulty := pd, powProofParses := pp }
  | _ => none

def parseHeader (s : String) : Option Header :=
  match s.splitOn ":" with
  | [net, prev, h, hh, ch, th, fp, fm, ds, ph, sh] => do
    let net ← net.toNat? >>= NetID.ofNat?
    let prev ← hexE prev; let h ← h.toNat?; let hh ← hexE hh; let ch ← hexE ch; let th ← hexE th
    let fp ← fp.toNat?; let fm ← fm.toNat?; let ds ← ds.toNat?; let ph ← hexE ph; let sh ← hexE sh
    some { network := net, previous := prev, height := h, historyHash := hh, coinsHash := ch,
           transactionsHash := th, feePool := fp, feeMultiplier := fm, doscSpeed := ds, poolsHash := ph,
           stakesHash := sh }
  | _ => none

def headerText (h : Header) : String :=
  s!"{h.network.toNat}:{hexOfBytes h.previous}:{h.height}:{hexOfBytes h.historyHash}:{hexOfBytes h.coinsHash}:{hexOfBytes h.transactionsHash}:{h.feePool}:{h.feeMultiplier}:{h.doscSpeed}:{hexOfBytes h.poolsHash}:{hexOfBytes h.stakesHash}"

def parseAction (s : String) : Option (Option ProposerAction) :=
  if s = "-" then some none else
  match s.splitOn ":" with
  | [d, dest] => do
    let d ← d.toInt?; let dest ← hexE dest
    some (some { feeMultiplierDelta := d, rewardDest := dest })
  | _ => none

def actionText : Option ProposerAction → String
  | none => "-"
  | some a => s!"{a.feeMultiplierDelta}:{hexOfBytes a.rewardDest}"

def coinIDText (c : CoinID) : String := s!"{hexOfBytes c.txhash}:{c.index}"
def coinDataText (cd : CoinData) : String :=
  s!"{hexOfBytes cd.covhash}:{cd.value}:{hexOfBytes cd.denom.toBytes}:{hexOfBytes cd.additionalData}"
def stakeDocText (d : StakeDoc) : String := s!"{hexOfBytes d.pubkey}:{d.eStart}:{d.ePostEnd}:{d.symsStaked}"

/-- sort by a key with a strict order on keys (merge sort: dumps of states with thousands of coins stay fast) -/
def sortBy {α κ} (key : α → κ) (lt : κ → κ → Bool) (l : List α) : List α :=
  l.mergeSort (fun a b => !lt (key b) (key a))

def coinKeyLt (a b : Bytes × Nat) : Bool :=
  if a.1 = b.1 then a.2 < b.2 else bytesLt a.1 b.1

/-- canonical dump of a state's content (same format as the harness) -/
def dumpState (s : State) : String :=
  let coins := sortBy (fun (e : CoinID × CoinDataHeight) => (e.1.txhash, e.1.index)) coinKeyLt s.coins.coins
  let counts := sortBy (fun (e : Hash × Nat) => e.1) bytesLt s.coins.counts
  let pools := sortBy (fun (e : PoolKey × PoolState) => e.1.toBytes) bytesLt s.pools
  let stakes := sortBy (fun (e : Hash × StakeDoc) => e.1) bytesLt s.stakes
  let txs := sortBy (fun (t : Tx) => t.hash) bytesLt s.txs
  let j (l : List String) := ";".intercalate l
  s!"net={s.network.toNat} h={s.height} fp={s.feePool} fm={s.feeMultiplier} tips={s.tips} ds={s.doscSpeed} " ++
  s!"coins=[{j (coins.map fun e => s!"{coinIDText e.1}={coinDataText e.2.coinData}@{e.2.height}")}] " ++
  s!"counts=[{j (counts.map fun e => s!"{hexOfBytes e.1}={e.2}")}] extra=[] " ++
  s!"pools=[{j (pools.map fun e => s!"{hexOfBytes e.1.toBytes}={e.2.lefts}:{e.2.rights}:{e.2.priceAccum}:{e.2.liqs}")}]/{s.pools.length} " ++
  s!"stakes=[{j (stakes.map fun e => s!"{hexOfBytes e.1}={stakeDocText e.2}")}] " ++
  s!"txs=[{j (txs.map fun t => hexOfBytes t.hash)}] hist={s.history.length}"

/-! state-level oracle tables -/

structure StateOracles where
  vm : OracleTable := {}
  liq : List (Bytes × Hash) := []
  fdp : List (Hash × Hash) := []
  grandfathered : List Hash := []
  reward : List (Nat × Hash) := []
  /-- (seed header hash, coin id, difficulty, tx hash) ↦ verdict -/
  pow : List (Hash × CoinID × Nat × Hash × PowVerdict) := []
  deriving Inhabited

def parseStateOracles (s : String) : Option StateOracles :=
  if s = "-" then some {} else
    (s.splitOn ",").foldlM (init := ({} : StateOracles)) fun t item =>
      match item.splitOn ":" with
      | ["h", i, o] => do let i ← hexE i; let o ← hexE o; some { t with vm := { t.vm with hashes := (i, o) :: t.vm.hashes } }
      | ["s", pk, m, sg, ok] => do
        let pk ← hexE pk; let m ← hexE m; let sg ← hexE sg
        some { t with vm := { t.vm with sigs := (pk, m, sg, ok == "1") :: t.vm.sigs } }
      | ["l", k, h] => do
        let k ← hexE k; let d ← hexE h
        some { t with liq := (k, d) :: t.liq }
      | ["f", a, b] => do let a ← hexE a; let b ← hexE b; some { t with fdp := (a, b) :: t.fdp }
      | ["g", a] => do let a ← hexE a; some { t with grandfathered := a :: t.grandfathered }
      | ["r", h, a] => do let h ← h.toNat?; let a ← hexE a; some { t with reward := (h, a) :: t.reward }
      | ["p", seed, ch, ci, d, txh, v] => do
        let seed ← hexE seed; let ch ← hexE ch; let ci ← ci.toNat?; let d ← d.toNat?; let txh ← hexE txh
        let v ← match v with
          | "legacy" => some PowVerdict.legacy | "tip910" => some .tip910
          | "invalid" => some .invalid | "panics" => some .panics | _ => none
        some { t with pow := (seed, { txhash := ch, index := ci }, d, txh, v) :: t.pow }
      | _ => none

structure Roots where
  hist : Hash := []
  coins : Hash := []
  txs : Hash := []
  pools : Hash := []
  stakes : Hash := []
  deriving Inhabited

def parseRoots (s : String) : Option Roots :=
  if s = "-" then some {} else
  match s.splitOn "," with
  | [a, b, c, d, e] => do
    let a ← hexE a; let b ← hexE b; let c ← hexE c; let d ← hexE d; let e ← hexE e
    some { hist := a, coins := b, txs := c, pools := d, stakes := e }
  | _ => none

end Mel.Proto
