/-
  Sealing a block: Melmint, the TIP-909 subsidy, the proposer action (mirrors src/state.rs).
-/
import MelModel.Melmint
namespace Mel
open Mel.Gen

/-- `move_action_fee_multiplier` (u128 arithmetic, saturating) -/
def moveFeeMultiplier (m : Nat) (delta : Int) (tip901 : Bool) : Nat :=
  let maxMovement := if tip901 then max (m / 2 ^ FEEMULT_SHIFT) FEEMULT_FLOOR else m / 2 ^ FEEMULT_SHIFT
  let scaled := maxMovement * delta.natAbs / FEEMULT_DIV
  if delta ≥ 0 then satAdd128 m scaled else m - scaled

/-- the same function as it was before the `fix:` commit (i64 product, unchecked `+=`/`-=`):
    kept to state what was wrong. `none` = panic. -/
def moveFeeMultiplierOld (m : Nat) (delta : Int) (tip901 : Bool) : Option Nat :=
  let asI64 (n : Nat) : Int := if n % 2 ^ 64 < 2 ^ 63 then ((n % 2 ^ 64 : Nat) : Int) else ((n % 2 ^ 64 : Nat) : Int) - 2 ^ 64
  let mm : Int := if tip901 then max (asI64 (m / 128)) 2 else asI64 (m / 128)
  let prod := mm * delta
  if prod < -(2 ^ 63) ∨ prod ≥ 2 ^ 63 then none
  else
    let scaled := Int.tdiv prod 128
    if scaled ≥ 0 then (if m + scaled.toNat > U128_MAX then none else some (m + scaled.toNat))
    else (if scaled.natAbs > m then none else some (m - scaled.natAbs))

/-- `apply_tip_909` -/
def applyTip909 (s : State) : Outcome State :=
  let divider := (s.height - TIP_909_HEIGHT) / SUBSIDY_HALVING
  if divider ≥ 128 then .crash "state.rs: shift amount overflow in apply_tip_909" else
  let reward := 2 ^ SUBSIDY_LOG2 / 2 ^ divider
  let ergSubsidyA := reward / 2 ^ SUBSIDY_ERG_SHIFT
  let feeSubsidy := if s.tip909a then reward - ergSubsidyA else reward / 2
  match s.pools.get poolMelSym with
  | none => .crash "state.rs: MEL/SYM pool missing (unwrap)"
  | some sm =>
    (sm.swapMany 0 feeSubsidy).bind fun (sm', mel, _) =>
    let pools1 := s.pools.set poolMelSym sm'
    if s.feePool + mel > U128_MAX then .crash "state.rs: fee_pool += overflow" else
    let ergSubsidy := if s.tip909a then ergSubsidyA else reward - feeSubsidy
    match pools1.get poolErgSym with
    | none => .crash "state.rs: ERG/SYM pool missing (unwrap)"
    | some es =>
      (es.swapMany 0 ergSubsidy).bind fun (es', _, _) =>
      .ok { s with pools := pools1.set poolErgSym es', feePool := s.feePool + mel }

/-- `collect_proposer_action_fee` -/
def collectProposerFee (env : Env) (s : State) (a : ProposerAction) : Outcome State :=
  let baseFees := s.feePool / 2 ^ REWARD_SHIFT
  let value := baseFees + s.tips
  if value > U128_MAX then .crash "state.rs: base_fees + tips overflow" else
  let cd : CoinDataHeight :=
    { coinData := { covhash := a.rewardDest, value := value, denom := .mel, additionalData := [] },
      height := s.height }
  .ok { s with feePool := s.feePool - baseFees, tips := 0,
               coins := s.coins.insertCoin { txhash := env.rewardId s.height, index := 0 } cd s.tip906 }

/-- `apply_proposer_action` -/
def applyProposerAction (env : Env) (s : State) (a : ProposerAction) : Outcome State :=
  collectProposerFee env
    { s with feeMultiplier := moveFeeMultiplier s.feeMultiplier a.feeMultiplierDelta s.tip901 } a

/-- `seal` -/
def sealState (env : Env) (s : State) (action : Option ProposerAction) : Outcome Sealed :=
  (presealMelmint env s).bind fun s1 =>
  if s1.pools.length < 2 then .crash "assert!(pools.count() >= 2)" else
  (if s1.tip909 then applyTip909 s1 else .ok s1).bind fun s2 =>
  match action with
  | none => .ok { st := s2, action := none }
  | some a => (applyProposerAction env s2 a).bind fun s3 => .ok { st := s3, action := some a }

end Mel
