/-
  Applying a batch of transactions: mirrors src/state/applytx.rs.
-/
import MelModel.Seal
import MelModel.VM.Codec
namespace Mel
open Mel.Gen Mel.VM

/-- `Transaction::is_well_formed` (melstructs) -/
def Tx.isWellFormed (tx : Tx) : Bool :=
  tx.outputs.all (fun o => o.value ≤ MAX_COINVAL) && tx.fee ≤ MAX_COINVAL && tx.outputs.length ≤ 255

/-- the MEL outputs plus the fee fit a u128 (guard added by the `fix:` for `total_outputs`) -/
def Tx.melTotalFits (tx : Tx) : Bool :=
  tx.fee + ((tx.outputs.filter fun o => o.denom = .mel).map (·.value)).sum ≤ U128_MAX

/-- weight of one covenant given as bytes: `covenant_weight_from_bytes` -/
def covenantWeightFromBytes (b : Bytes) : Nat :=
  match decodeAll b with
  | some ops => weightDP ops
  | none => 0

/-- the covenant weights add up within a u128 (guard added by the `fix:` for F19: `Transaction::weight` sums them with a
    plain addition) -/
def Tx.covWeightsFit (tx : Tx) : Bool :=
  (tx.covenants.map covenantWeightFromBytes).sum ≤ U128_MAX

/-- `output_coins_from_tx` -/
def outputCoinsFromTx (tx : Tx) (height : Nat) : List (CoinID × CoinDataHeight) :=
  (tx.outputs.zipIdx).filterMap fun (o, i) =>
    let cd : CoinData := if o.denom = .newCustom then { o with denom := .custom tx.hash } else o
    if cd.covhash ≠ coinDestroy then some ({ txhash := tx.hash, index := i % 256 }, { coinData := cd, height := height })
    else none

abbrev Relevant := AList CoinID CoinDataHeight

/-- `load_relevant_coins` -/
def loadRelevantCoins (s : State) (txs : List Tx) : Outcome Relevant :=
  if !(txs.all fun tx => tx.isWellFormed && tx.melTotalFits && tx.covWeightsFit) then .reject .malformedTx else
  let created : Relevant := txs.foldl (fun acc tx => acc.extend (outputCoinsFromTx tx s.height)) []
  -- `extract_input_coins`
  let allInputs := txs.flatMap (·.inputs)
  let fromDisk : Outcome Relevant := Outcome.foldlM' (fun (acc : Relevant) (inp : CoinID) =>
    if created.contains inp then .ok acc
    else match s.coins.getCoin inp with
      | some c => .ok (acc.set inp c)
      | none => .reject .nonexistentCoin) [] allInputs
  fromDisk.bind fun disk =>
  let accum := created.extend disk.reverse
  -- no double spending within the batch
  if allInputs.Nodup then .ok accum else .reject .nonexistentCoin

def legacyStakeReg (s : State) : Bool :=
  (s.network = .mainnet || s.network = .testnet) && s.height < LEGACY_STAKE_REG_HEIGHT

def legacyStakeLock (s : State) : Bool :=
  (s.network = .mainnet || s.network = .testnet) && s.height < LEGACY_STAKE_LOCK_HEIGHT

/-- `stake_is_consistent` -/
def stakeIsConsistent (d : StakeDoc) (currEpoch : Nat) (coin : CoinData) : Bool :=
  d.eStart > currEpoch && d.ePostEnd > d.eStart && d.symsStaked = coin.value

/-- `load_stake_info` -/
def loadStakeInfo (s : State) (txs : List Tx) : Outcome (AList Hash StakeDoc) :=
  Outcome.foldlM' (fun (acc : AList Hash StakeDoc) (tx : Tx) =>
    if tx.kind ≠ .stake then .ok acc
    else if legacyStakeReg s then .ok acc
    else match tx.stakeDoc with
      | none => .reject .malformedTx
      | some d =>
        match tx.outputs with
        | [] => .reject .malformedTx
        | first :: _ =>
          if first.denom ≠ .sym then .reject .malformedTx
          else if stakeIsConsistent d s.epoch first then .ok (acc.set tx.hash d)
          else .ok acc) [] txs

/-- `covenants_as_map().get(covhash)`: the covenant bytes whose hash is `covhash` -/
def Tx.findCovenant (tx : Tx) (covhash : Hash) : Option Bytes :=
  ((tx.covHashes.zip tx.covenants).reverse.find? fun e => e.1 = covhash).map (·.2)

/-- `validate_tx_scripts` -/
def validateTxScripts (env : Env) (spendIdx : Nat) (coinId : CoinID) (tx : Tx)
    (coin : CoinDataHeight) (lastHeader : Header) : Outcome Unit :=
  match tx.findCovenant coin.coinData.covhash with
  | none => .reject .nonexistentScript
  | some bytes =>
    match decodeAll bytes with
    | none => .reject .malformedTx
    | some ops =>
      let cenv : CovEnv := { parentCoinID := coinId, parentCdh := coin, spenderIndex := spendIdx % 256,
                             lastHeader := lastHeader }
      match execute env.vm ops tx (some cenv) with
      | some v => if v.intoBool then .ok () else .reject .violatesScript
      | none => .reject .violatesScript

def addDenom (m : AList Denom Nat) (d : Denom) (v : Nat) : AList Denom Nat :=
  m.set d ((m.get d).getD 0 + v)

/-- `Transaction::total_outputs` -/
def Tx.totalOutputs (tx : Tx) : AList Denom Nat :=
  let m := tx.outputs.foldl (fun acc o => addDenom acc o.denom o.value) []
  addDenom m .mel tx.fee

/-- `check_tx_coins_balanced` -/
def checkBalanced (kind : TxKind) (inCoins outCoins : AList Denom Nat) : Outcome Unit :=
  if kind = .faucet then .ok () else
  Outcome.forM' (fun (e : Denom × Nat) =>
    if e.1 = .newCustom || (kind = .doscMint && e.1 = .erg) then .ok ()
    else match inCoins.get e.1 with
      | none => .reject .unbalancedInOut
      | some iv => if e.2 ≠ iv then .reject .unbalancedInOut else .ok ()) outCoins

/-- `check_tx_validity` -/
def checkTxValidity (env : Env) (s : State) (lastHeader : Header) (tx : Tx) (rel : Relevant)
    (newStakes : AList Hash StakeDoc) : Outcome Unit :=
  let go := Outcome.foldlM' (fun (acc : AList Denom Nat) (e : CoinID × Nat) =>
    let coinId := e.1
    if (newStakes.contains coinId.txhash || (s.stakes.getStake coinId.txhash).isSome) && !legacyStakeLock s
    then .reject .coinLocked
    else match rel.get coinId with
      | none => .reject .nonexistentCoin
      | some coin =>
        (validateTxScripts env e.2 coinId tx coin lastHeader).bind fun _ =>
          let total := (acc.get coin.coinData.denom).getD 0 + coin.coinData.value
          if total > U128_MAX then .crash "applytx.rs: in_coins sum overflow"
          else .ok (acc.set coin.coinData.denom total)) [] tx.inputs.zipIdx
  go.bind fun inCoins => checkBalanced tx.kind inCoins tx.totalOutputs

/-- `compute_doscmint_speed` -/
def computeDoscmintSpeed (tip910 : Bool) (difficulty stateHeight coinHeight : Nat) : Outcome Nat :=
  if difficulty ≥ 128 then .crash "applytx.rs: 2u128.pow overflow"
  else if coinHeight > stateHeight then .crash "applytx.rs: BlockHeight subtraction underflow"
  else if stateHeight = coinHeight then .crash "applytx.rs: division by zero"
  else
    let v := (if tip910 then TIP910_SPEED_FACTOR else 1) * 2 ^ difficulty
    if v > U128_MAX then .crash "applytx.rs: speed multiplication overflow"
    else .ok (v / (stateHeight - coinHeight))

/-- `validate_and_get_doscmint_speed` -/
def validateDoscmint (env : Env) (s : State) (rel : Relevant) (tx : Tx) : Outcome Nat :=
  match tx.inputs with
  | [] => .crash "applytx.rs: expect(inputs[0])"
  | coinId :: _ =>
    match rel.get coinId with
    | none => .reject .nonexistentCoin
    | some coin =>
      if coin.height > s.height then .crash "applytx.rs: BlockHeight subtraction underflow"
      else if s.height - coin.height < DOSCMINT_MIN_AGE && s.network = .mainnet then .reject .invalidMelPoW
      else match s.history.get coin.height with
        | none => .reject .invalidMelPoW
        | some seedHdr =>
          match tx.powDifficulty with
          | none => .reject .invalidMelPoW
          | some difficulty =>
            if !tx.powProofParses then .reject .malformedTx
            else match env.powOk (env.hdrHash seedHdr) coinId difficulty tx.hash with
              -- since the `fix:` for finding F9 a proof on which `melpow::Proof::verify` panics (it lacks nodes the
              -- verifier looks up) proves nothing: the transaction is rejected
              | .panics => .reject .invalidMelPoW
              | .invalid => .reject .invalidMelPoW
              | v =>
                let tip910 := v = .tip910
                (computeDoscmintSpeed tip910 difficulty s.height coin.height).bind fun mySpeed =>
                if s.height = 0 then .crash "applytx.rs: height - 1 underflow" else
                match s.history.get (s.height - 1) with
                | none => .reject .invalidMelPoW
                | some prev =>
                  (calculateReward mySpeed prev.doscSpeed difficulty tip910).bind fun rewardReal =>
                  (doscToErg s.height rewardReal).bind fun rewardNom =>
                    let totalErg := (tx.totalOutputs.get .erg).getD 0
                    if totalErg > rewardNom then .reject .invalidMelPoW else .ok mySpeed

/-- `Transaction::weight` with `covenant_weight_from_bytes`; the plain `.sum()` over covenant weights
    panics on u128 overflow. -/
def Tx.weight (tx : Tx) : Outcome Nat :=
  let scripts := (tx.covenants.map covenantWeightFromBytes).sum
  if scripts > U128_MAX then .crash "melstructs: covenant weight sum overflow"
  else .ok (satAdd128 (satAdd128 tx.rawLen scripts) (tx.outputs.length * 1000) - tx.inputs.length * 1000)

/-- `Transaction::base_fee(fee_multiplier, 0, …)` -/
def Tx.baseFee (tx : Tx) (feeMultiplier : Nat) : Outcome Nat :=
  tx.weight.bind fun w => .ok (satMul128 w feeMultiplier / 65536)

/-- `handle_faucet_tx` -/
def handleFaucetTx (env : Env) (s : State) (tx : Tx) : Outcome State :=
  let bug := env.isGrandfathered tx.hash
  if s.network = .mainnet && !bug then .reject .malformedTx
  else
    let pseudo : CoinID := { txhash := env.fdp tx.hash, index := 0 }
    if (s.coins.getCoin pseudo).isSome then .reject .duplicateTx
    else if !bug then
      let marker : CoinDataHeight :=
        { coinData := { denom := .mel, value := 0, additionalData := [], covhash := zeroHash }, height := 0 }
      .ok { s with coins := s.coins.insertCoin pseudo marker s.tip906 }
    else .ok s

/-- `create_next_state`: all outputs first, then faucet markers, inputs, fees -/
def createNextState (env : Env) (s : State) (txs : List Tx) (rel : Relevant) (tip906 : Bool) : Outcome State :=
  let coins1 := txs.foldl (fun (coins : CoinMap) tx =>
    (List.range tx.outputs.length).foldl (fun coins i =>
      let id : CoinID := { txhash := tx.hash, index := i % 256 }
      match rel.get id with
      | some cd => coins.insertCoin id cd tip906
      | none => coins) coins) s.coins
  Outcome.foldlM' (fun (st : State) (tx : Tx) =>
    -- a block holds a transaction at most once (`next_state.transactions.contains(hash)`, added by the `fix:`
    -- for the double application of the grandfathered faucet transaction)
    if st.txs.any (fun t => t.hash = tx.hash) then .reject .duplicateTx else
    (if tx.kind = .faucet then handleFaucetTx env st tx else .ok st).bind fun st1 =>
    (Outcome.foldlM' (fun (coins : CoinMap) id => coins.removeCoin id tip906) st1.coins tx.inputs).bind fun coins2 =>
    (tx.baseFee st1.feeMultiplier).bind fun minFee =>
      if tx.fee < minFee then .reject .insufficientFees
      else .ok { st1 with coins := coins2,
                          tips := satAdd128 st1.tips (tx.fee - minFee),
                          feePool := satAdd128 st1.feePool minFee,
                          txs := State.insertTx st1.txs tx })
    { s with coins := coins1 } txs

/-- the stand-in shown to covenants in the first block of a chain, which has no previous header (since the `fix:` for
    finding F25): only what is fixed for the whole block — network, height, fee multiplier, DOSC speed; every root and
    the fee pool are zero.  (Before, it was the header of the block sealed as it stood, which changes with every
    transaction applied.) -/
def genesisStandIn (s : State) : Header :=
  { network := s.network, previous := zeroHash, height := s.height, historyHash := zeroHash, coinsHash := zeroHash,
    transactionsHash := zeroHash, feePool := 0, feeMultiplier := s.feeMultiplier, doscSpeed := s.doscSpeed,
    poolsHash := zeroHash, stakesHash := zeroHash }

/-- the header used as `last_header`: `history[height-1]`, else (first block) the stand-in.  The second argument is what
    the old code used in that case (the header of the current state sealed without an action, passed in because it
    contains Merkle roots); it is no longer looked at and is kept only so that the signatures of `applyBatch` and of the
    theorems about it stay as they were. -/
def lastHeaderOf (s : State) (_genesisFallback : Header) : Header :=
  (s.history.get (s.height - 1)).getD (genesisStandIn s)

/-- `apply_tx_batch_impl` -/
def applyBatch (env : Env) (s : State) (txs : List Tx) (genesisFallback : Header) : Outcome State :=
  (loadRelevantCoins s txs).bind fun rel =>
  (loadStakeInfo s txs).bind fun newStakes =>
  let lastHeader := lastHeaderOf s genesisFallback
  (Outcome.forM' (fun tx => checkTxValidity env s lastHeader tx rel newStakes) txs).bind fun _ =>
  (Outcome.foldlM' (fun (speed : Nat) (tx : Tx) =>
      if tx.kind = .doscMint then (validateDoscmint env s rel tx).bind fun sp => .ok (max speed sp)
      else .ok speed) s.doscSpeed txs).bind fun newSpeed =>
  (createNextState env s txs rel s.tip906).bind fun next =>
  .ok { next with doscSpeed := newSpeed,
                  stakes := newStakes.reverse.foldl (fun st e => StakeSet.addStake st e.1 e.2) next.stakes }

end Mel
