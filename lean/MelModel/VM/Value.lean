/-
  MelVM values (mirrors lib/melvm/src/value.rs). `CatVec` ropes are modelled as lists.
-/
import MelModel.VM.Op
import MelModel.Types
namespace Mel.VM
open Mel

inductive Value where
  | int (v : U256)
  | bytes (b : Bytes)
  | vec (l : List Value)
  deriving Repr, Inhabited

namespace Value

def intoBool : Value → Bool
  | .int v => v != 0
  | _ => true

def intoInt : Value → Option U256
  | .int v => some v
  | _ => none

def intoU16 (x : Value) : Option Nat :=
  match x with
  | .int v => if v.toNat > 65535 then none else some v.toNat
  | _ => none

def intoTruncU8 : Value → Option UInt8
  | .int v => some (UInt8.ofNat (v.toNat % 256))
  | _ => none

def intoBytes : Value → Option Bytes
  | .bytes b => some b
  | _ => none

def intoVec : Value → Option (List Value)
  | .vec l => some l
  | _ => none

/-- `top.into_int() == Some(0)` -/
def isZeroInt : Value → Bool
  | .int v => v == 0
  | _ => false

def ofBool (b : Bool) : Value := .int (if b then 1 else 0)
def ofNat (n : Nat) : Value := .int (BitVec.ofNat 256 n)

/-- nesting depth (the quantity behind the recursive-drop stack overflow, F17) -/
def depth : Value → Nat
  | .int _ => 0
  | .bytes _ => 0
  | .vec l => 1 + depthList l
where depthList : List Value → Nat
  | [] => 0
  | v :: vs => max (depth v) (depthList vs)

end Value

/-- `From<CoinData> for Value` -/
def valOfCoinData (cd : CoinData) : Value :=
  .vec [.bytes cd.covhash, .ofNat cd.value, .bytes cd.denom.toBytes, .bytes cd.additionalData]

/-- `From<CoinID> for Value` -/
def valOfCoinID (c : CoinID) : Value := .vec [.bytes c.txhash, .ofNat c.index]

/-- `From<Header> for Value` -/
def valOfHeader (h : Header) : Value :=
  .vec [.ofNat h.network.toNat, .bytes h.previous, .ofNat h.height, .bytes h.historyHash,
        .bytes h.coinsHash, .bytes h.transactionsHash, .ofNat h.feePool, .ofNat h.feeMultiplier,
        .ofNat h.doscSpeed, .bytes h.poolsHash, .bytes h.stakesHash]

/-- `From<Transaction> for Value` -/
def valOfTx (tx : Tx) : Value :=
  .vec [.ofNat tx.kind.toNat,
        .vec (tx.inputs.map valOfCoinID),
        .vec (tx.outputs.map valOfCoinData),
        .ofNat tx.fee,
        .vec (tx.covenants.map .bytes),
        .bytes tx.data,
        .vec (tx.sigs.map .bytes)]

/-- `CovenantEnv` -/
structure CovEnv where
  parentCoinID : CoinID
  parentCdh : CoinDataHeight
  spenderIndex : Nat      -- u8
  lastHeader : Header
  deriving Repr, Inhabited

end Mel.VM
