/-
  MelVM bytecode codec: mirrors `OpCode::encode`, `OpCode::decode`,
  `Covenant::from_bytes`, `Covenant::to_bytes`.
  Opcode byte values come from the generated table (encode arms and decode arms separately).
-/
import MelModel.VM.Op
import MelModel.Generated.Tables
namespace Mel.VM
open Mel Mel.Gen

def u16BE (n : UInt16) : Bytes := toBE 2 n.toNat

/-- `OpCode::encode`; `none` = `EncodeError::TooManyBytes`. -/
def encodeOp : Op → Option Bytes
  | .noop => some [encNoop]
  | .add => some [encAdd] | .sub => some [encSub] | .mul => some [encMul]
  | .div => some [encDiv] | .rem => some [encRem]
  | .exp k => some [encExp, k]
  | .and => some [encAnd] | .or => some [encOr] | .xor => some [encXor] | .not => some [encNot]
  | .eql => some [encEql] | .lt => some [encLt] | .gt => some [encGt]
  | .shl => some [encShl] | .shr => some [encShr]
  | .hash n => some (encHash :: u16BE n)
  | .sigeok n => some (encSigEOk :: u16BE n)
  | .store => some [encStore] | .load => some [encLoad]
  | .storeimm i => some (encStoreImm :: u16BE i)
  | .loadimm i => some (encLoadImm :: u16BE i)
  | .vref => some [encVRef] | .vappend => some [encVAppend] | .vempty => some [encVEmpty]
  | .vlength => some [encVLength] | .vslice => some [encVSlice] | .vset => some [encVSet]
  | .vpush => some [encVPush] | .vcons => some [encVCons]
  | .bref => some [encBRef] | .bappend => some [encBAppend] | .bempty => some [encBEmpty]
  | .blength => some [encBLength] | .bslice => some [encBSlice] | .bset => some [encBSet]
  | .bpush => some [encBPush] | .bcons => some [encBCons]
  | .bez n => some (encBez :: u16BE n)
  | .bnz n => some (encBnz :: u16BE n)
  | .jmp n => some (encJmp :: u16BE n)
  | .loop it n => some (encLoop :: (u16BE it ++ u16BE n))
  | .itob => some [encItoB] | .btoi => some [encBtoI] | .typeq => some [encTypeQ]
  | .pushb bs => if bs.length > 255 then none
                 else some (encPushB :: UInt8.ofNat bs.length :: bs)
  | .pushi v => some (encPushI :: toBE 32 v.toNat)
  | .pushic v => some (encPushIC :: UInt8.ofNat (sigLen v.toNat) :: toBE (sigLen v.toNat) v.toNat)
  | .dup => some [encDup]

/-- `Covenant::to_bytes` (which `unwrap`s: `none` is a panic there). -/
def encodeAll : List Op → Option Bytes
  | [] => some []
  | op :: rest => do
    let a ← encodeOp op
    let b ← encodeAll rest
    pure (a ++ b)

/-- read exactly `n` bytes (`read_exact`) -/
def takeExact (n : Nat) (bs : Bytes) : Option (Bytes × Bytes) :=
  if n ≤ bs.length then some (bs.take n, bs.drop n) else none

def u16arg (bs : Bytes) : Option (UInt16 × Bytes) :=
  match bs with
  | a :: b :: rest => some (UInt16.ofNat (a.toNat * 256 + b.toNat), rest)
  | _ => none

/-- `OpCode::decode`: one instruction and the unread remainder; `none` = any `DecodeError`. -/
def decodeOp : Bytes → Option (Op × Bytes)
  | [] => none
  | b :: r =>
    if b = decNoop then some (.noop, r)
    else if b = decAdd then some (.add, r)
    else if b = decSub then some (.sub, r)
    else if b = decMul then some (.mul, r)
    else if b = decDiv then some (.div, r)
    else if b = decRem then some (.rem, r)
    else if b = decExp then
      match r with
      | k :: r' => some (.exp k, r')
      | [] => none
    else if b = decAnd then some (.and, r)
    else if b = decOr then some (.or, r)
    else if b = decXor then some (.xor, r)
    else if b = decNot then some (.not, r)
    else if b = decEql then some (.eql, r)
    else if b = decLt then some (.lt, r)
    else if b = decGt then some (.gt, r)
    else if b = decShl then some (.shl, r)
    else if b = decShr then some (.shr, r)
    else if b = decHash then (u16arg r).map fun (n, r') => (.hash n, r')
    else if b = decSigEOk then (u16arg r).map fun (n, r') => (.sigeok n, r')
    else if b = decLoad then some (.load, r)
    else if b = decStore then some (.store, r)
    else if b = decLoadImm then (u16arg r).map fun (n, r') => (.loadimm n, r')
    else if b = decStoreImm then (u16arg r).map fun (n, r') => (.storeimm n, r')
    else if b = decVRef then some (.vref, r)
    else if b = decVAppend then some (.vappend, r)
    else if b = decVEmpty then some (.vempty, r)
    else if b = decVLength then some (.vlength, r)
    else if b = decVSlice then some (.vslice, r)
    else if b = decVSet then some (.vset, r)
    else if b = decVPush then some (.vpush, r)
    else if b = decVCons then some (.vcons, r)
    else if b = decBRef then some (.bref, r)
    else if b = decBAppend then some (.bappend, r)
    else if b = decBEmpty then some (.bempty, r)
    else if b = decBLength then some (.blength, r)
    else if b = decBSlice then some (.bslice, r)
    else if b = decBSet then some (.bset, r)
    else if b = decBPush then some (.bpush, r)
    else if b = decBCons then some (.bcons, r)
    else if b = decTypeQ then some (.typeq, r)
    else if b = decJmp then (u16arg r).map fun (n, r') => (.jmp n, r')
    else if b = decBez then (u16arg r).map fun (n, r') => (.bez n, r')
    else if b = decBnz then (u16arg r).map fun (n, r') => (.bnz n, r')
    else if b = decLoop then
      match u16arg r with
      | some (it, r') => (u16arg r').map fun (n, r'') => (.loop it n, r'')
      | none => none
    else if b = decItoB then some (.itob, r)
    else if b = decBtoI then some (.btoi, r)
    else if b = decPushB then
      match r with
      | len :: r' => (takeExact len.toNat r').map fun (bs, r'') => (.pushb bs, r'')
      | [] => none
    else if b = decPushI then
      (takeExact 32 r).map fun (bs, r') => (.pushi (BitVec.ofNat 256 (fromBE bs)), r')
    else if b = decPushIC then
      match r with
      | len :: r' =>
        if len.toNat > 32 then none
        else match takeExact len.toNat r' with
          | some (bs, r'') =>
            if sigLen (fromBE bs) = len.toNat then some (.pushic (BitVec.ofNat 256 (fromBE bs)), r'')
            else none
          | none => none
      | [] => none
    else if b = decDup then some (.dup, r)
    else none

/-- `Covenant::from_bytes`, with fuel (the input length always suffices). -/
def decodeFuel : Nat → Bytes → Option (List Op)
  | _, [] => some []
  | 0, _ :: _ => none
  | fuel + 1, bs =>
    match decodeOp bs with
    | none => none
    | some (op, rest) => (decodeFuel fuel rest).map (op :: ·)

def decodeAll (bs : Bytes) : Option (List Op) := decodeFuel bs.length bs

end Mel.VM
