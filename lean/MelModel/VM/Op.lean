/-
  MelVM instruction set (mirrors `enum OpCode` in lib/melvm/src/opcode.rs, `print` feature off).
-/
import MelModel.Prim.Bytes
namespace Mel.VM

abbrev U256 := BitVec 256

inductive Op where
  | noop | add | sub | mul | div | rem
  | exp (k : UInt8)
  | and | or | xor | not | eql | lt | gt | shl | shr
  | hash (n : UInt16) | sigeok (n : UInt16)
  | store | load | storeimm (i : UInt16) | loadimm (i : UInt16)
  | vref | vappend | vempty | vlength | vslice | vset | vpush | vcons
  | bref | bappend | bempty | blength | bslice | bset | bpush | bcons
  | bez (n : UInt16) | bnz (n : UInt16) | jmp (n : UInt16)
  | loop (iters : UInt16) (n : UInt16)
  | itob | btoi | typeq
  | pushb (bs : Bytes) | pushi (v : U256) | pushic (v : U256)
  | dup
  deriving DecidableEq, Repr, Inhabited

end Mel.VM
