/-
  MelVM executor: mirrors lib/melvm/src/executor.rs instruction by instruction.
  External primitives (blake3, Ed25519) are the two fields of `Oracles`.
-/
import MelModel.VM.Value
import MelModel.VM.Weight
namespace Mel.VM

/-- the largest length a byte string or vector can have (`usize::MAX` on the 64-bit targets the node runs on): growing
    one beyond it fails the covenant (`fix:` for F13, the ropes' length counter used to overflow) -/
def USIZE_MAX : Nat := 2 ^ 64 - 1
open Mel Mel.Gen

structure Oracles where
  /-- `tmelcrypt::hash_single` -/
  hash : Bytes → Bytes
  /-- `Ed25519PK(pk).verify(msg, sig)` for a 32-byte `pk` and a 64-byte `sig` -/
  sigOk : (pk msg sig : Bytes) → Bool

structure LoopState where
  begin_ : Nat
  end_ : Nat
  left : Nat
  deriving Repr, DecidableEq, Inhabited

abbrev Heap := List (Nat × Value)

def Heap.get (h : Heap) (k : Nat) : Option Value :=
  match h with
  | [] => none
  | (k', v) :: rest => if k' = k then some v else Heap.get rest k

def Heap.set (h : Heap) (k : Nat) (v : Value) : Heap := (k, v) :: h

structure Exec where
  stack : List Value            -- head = top
  heap : Heap
  pc : Nat
  loops : List LoopState        -- head = innermost
  deriving Repr, Inhabited

/-- `update_pc_state` -/
def updatePc (pc : Nat) : List LoopState → Nat × List LoopState
  | [] => (pc, [])
  | st :: rest =>
    if pc > st.end_ then
      if st.left > 0 ∧ pc - st.end_ = 1 then (st.begin_, { st with left := st.left - 1 } :: rest)
      else updatePc pc rest
    else (pc, st :: rest)

/-- the squaring loop of `Exp`; `none` when the bit budget runs out -/
def expLoop : Nat → (e b res k : Nat) → Option Nat
  | 0, _, _, _, _ => none
  | fuel + 1, e, b, res, k =>
    if e = 0 then some res
    else if k = 0 then none
    else expLoop fuel (e / 2) (b * b % U256_MOD) (if e % 2 = 1 then res * b % U256_MOD else res) (k - 1)

def listSet {α} : List α → Nat → α → Option (List α)
  | [], _, _ => none
  | _ :: xs, 0, v => some (v :: xs)
  | x :: xs, n + 1, v => (listSet xs n v).map (x :: ·)

def slice {α} (l : List α) (b e : Nat) : List α := (l.drop b).take (e - b)

def binop (s : List Value) (f : Value → Value → Option Value) : Option (List Value) :=
  match s with
  | x :: y :: rest => (f x y).map (· :: rest)
  | _ => none

def monop (s : List Value) (f : Value → Option Value) : Option (List Value) :=
  match s with
  | x :: rest => (f x).map (· :: rest)
  | _ => none

def triop (s : List Value) (f : Value → Value → Value → Option Value) : Option (List Value) :=
  match s with
  | x :: y :: z :: rest => (f x y z).map (· :: rest)
  | _ => none

def intBin (f : U256 → U256 → Option U256) (x y : Value) : Option Value :=
  match x, y with
  | .int a, .int b => (f a b).map .int
  | _, _ => none

/-- result of the instruction body (`inner` closure): new stack, heap, pc, loop stack.
    `pc` is the already incremented program counter. -/
def execOp (o : Oracles) (op : Op) (st : Exec) : Option Exec :=
  let pc := st.pc + 1
  let ok (s : List Value) : Option Exec := some { st with stack := s, pc := pc }
  match op with
  | .noop => ok st.stack
  | .add => (binop st.stack (intBin fun a b => some (a + b))).bind ok
  | .sub => (binop st.stack (intBin fun a b => some (a - b))).bind ok
  | .mul => (binop st.stack (intBin fun a b => some (a * b))).bind ok
  | .div => (binop st.stack (intBin fun a b => if b = 0 then none else some (a / b))).bind ok
  | .rem => (binop st.stack (intBin fun a b => if b = 0 then none else some (a % b))).bind ok
  | .exp k => (binop st.stack (intBin fun b e =>
      (expLoop 257 e.toNat b.toNat 1 (k.toNat + 1)).map (BitVec.ofNat 256))).bind ok
  | .and => (binop st.stack (intBin fun a b => some (a &&& b))).bind ok
  | .or => (binop st.stack (intBin fun a b => some (a ||| b))).bind ok
  | .xor => (binop st.stack (intBin fun a b => some (a ^^^ b))).bind ok
  | .not => (monop st.stack fun x => x.intoInt.map fun a => .int (~~~ a)).bind ok
  | .eql => (binop st.stack (intBin fun a b => some (if a = b then 1 else 0))).bind ok
  | .lt => (binop st.stack (intBin fun a b => some (if a < b then 1 else 0))).bind ok
  | .gt => (binop st.stack (intBin fun a b => some (if a > b then 1 else 0))).bind ok
  | .shl => (binop st.stack (intBin fun a off => some (a <<< (off.toNat % 4294967296 % 256)))).bind ok
  | .shr => (binop st.stack (intBin fun a off => some (a >>> (off.toNat % 4294967296 % 256)))).bind ok
  | .hash n => (monop st.stack fun x =>
      match x with
      | .bytes b => if b.length > n.toNat then none else some (.bytes (o.hash b))
      | _ => none).bind ok
  | .sigeok n => (triop st.stack fun message publicKey signature =>
      match publicKey with
      | .bytes pk =>
        if pk.length > 32 then some (.ofBool false)
        else if pk.length ≠ 32 then none
        else match message with
          | .bytes msg =>
            if msg.length > n.toNat then none
            else match signature with
              | .bytes sig =>
                if sig.length > 64 then some (.ofBool false)
                else if sig.length ≠ 64 then some (.ofBool false)
                else some (.ofBool (o.sigOk pk msg sig))
              | _ => none
          | _ => none
      | _ => none).bind ok
  | .store =>
    match st.stack with
    | a :: v :: rest => a.intoU16.map fun addr => { st with stack := rest, heap := st.heap.set addr v, pc := pc }
    | _ => none
  | .load =>
    match st.stack with
    | a :: rest => (a.intoU16.bind fun addr => st.heap.get addr).bind fun v => ok (v :: rest)
    | _ => none
  | .storeimm i =>
    match st.stack with
    | v :: rest => some { st with stack := rest, heap := st.heap.set i.toNat v, pc := pc }
    | _ => none
  | .loadimm i => (st.heap.get i.toNat).bind fun v => ok (v :: st.stack)
  | .vref => (binop st.stack fun vec idx => do
      let i ← idx.intoU16
      let l ← vec.intoVec
      l[i]?).bind ok
  | .vset => (triop st.stack fun vec idx value => do
      let i ← idx.intoU16
      let l ← vec.intoVec
      (listSet l i value).map .vec).bind ok
  | .vappend => (binop st.stack fun v1 v2 => do
      let a ← v1.intoVec
      let b ← v2.intoVec
      if a.length + b.length > USIZE_MAX then none else pure (.vec (a ++ b))).bind ok
  | .vslice => (triop st.stack fun vec b e => do
      let b ← b.intoU16
      let e ← e.intoU16
      match vec with
      | .vec l => if e > l.length ∨ e < b then some (.vec []) else some (.vec (slice l b e))
      | _ => none).bind ok
  | .vlength => (monop st.stack fun v => match v with
      | .vec l => some (.ofNat l.length)
      | _ => none).bind ok
  | .vempty => ok (.vec [] :: st.stack)
  | .vpush => (binop st.stack fun vec item => vec.intoVec.bind fun l =>
      if l.length + 1 > USIZE_MAX then none else some (.vec (l ++ [item]))).bind ok
  | .vcons => (binop st.stack fun item vec => vec.intoVec.bind fun l =>
      if l.length + 1 > USIZE_MAX then none else some (.vec (item :: l))).bind ok
  | .bempty => ok (.bytes [] :: st.stack)
  | .bpush => (binop st.stack fun vec val => do
      let l ← vec.intoBytes
      let v ← val.intoTruncU8
      if l.length + 1 > USIZE_MAX then none else pure (.bytes (l ++ [v]))).bind ok
  | .bcons => (binop st.stack fun item vec => do
      let l ← vec.intoBytes
      let v ← item.intoTruncU8
      if l.length + 1 > USIZE_MAX then none else pure (.bytes (v :: l))).bind ok
  | .bref => (binop st.stack fun vec idx => do
      let i ← idx.intoU16
      let l ← vec.intoBytes
      let b ← l[i]?
      pure (.ofNat b.toNat)).bind ok
  | .bset => (triop st.stack fun vec idx value => do
      let i ← idx.intoU16
      let l ← vec.intoBytes
      if i < l.length then
        let v ← value.intoTruncU8
        (listSet l i v).map .bytes
      else none).bind ok
  | .bappend => (binop st.stack fun v1 v2 => do
      let a ← v1.intoBytes
      let b ← v2.intoBytes
      if a.length + b.length > USIZE_MAX then none else pure (.bytes (a ++ b))).bind ok
  | .bslice => (triop st.stack fun vec b e => do
      let b ← b.intoU16
      let e ← e.intoU16
      match vec with
      | .bytes l => if e > l.length ∨ e < b then some (.bytes []) else some (.bytes (slice l b e))
      | _ => none).bind ok
  | .blength => (monop st.stack fun v => match v with
      | .bytes l => some (.ofNat l.length)
      | _ => none).bind ok
  | .bez j =>
    match st.stack with
    | top :: rest =>
      if top.isZeroInt
      then some { st with stack := rest, pc := pc + j.toNat }
      else some { st with stack := rest, pc := pc }
    | _ => none
  | .bnz j =>
    match st.stack with
    | top :: rest =>
      if top.isZeroInt
      then some { st with stack := rest, pc := pc }
      else some { st with stack := rest, pc := pc + j.toNat }
    | _ => none
  | .jmp j => some { st with pc := pc + j.toNat }
  | .loop it n =>
    if it.toNat > 0 then
      let thisEnd := pc + n.toNat - 1
      match st.loops with
      | last :: _ =>
        if thisEnd > last.end_ then none
        else some { st with pc := pc, loops := { begin_ := pc, end_ := thisEnd, left := it.toNat - 1 } :: st.loops }
      | [] => some { st with pc := pc, loops := { begin_ := pc, end_ := thisEnd, left := it.toNat - 1 } :: st.loops }
    else some { st with pc := pc + n.toNat }
  | .btoi => (monop st.stack fun x => match x with
      | .bytes b => if b.length = 32 then some (.ofNat (fromBE b)) else none
      | _ => none).bind ok
  | .itob => (monop st.stack fun x => x.intoInt.map fun v => .bytes (toBE 32 v.toNat)).bind ok
  | .pushb bs => ok (.bytes bs :: st.stack)
  | .pushi v => ok (.int v :: st.stack)
  | .pushic v => ok (.int v :: st.stack)
  | .typeq => (monop st.stack fun x => match x with
      | .int _ => some (.ofNat 0)
      | .bytes _ => some (.ofNat 1)
      | .vec _ => some (.ofNat 2)).bind ok
  | .dup =>
    match st.stack with
    | v :: rest => ok (v :: v :: rest)
    | _ => none

/-- `Executor::step`: `none` = the step failed (execution fails as a whole). -/
def step (o : Oracles) (ops : List Op) (st : Exec) : Option Exec :=
  match ops[st.pc]? with
  | none => none
  | some op =>
    match execOp o op st with
    | none => none
    | some st' =>
      let (pc', loops') := updatePc st'.pc st'.loops
      some { st' with pc := pc', loops := loops' }

/-- `run_to_end` with fuel; returns the result and the number of steps executed.
    `none` in the first component = execution failed (or fuel exhausted: see `C11`). -/
def runFuel (o : Oracles) (ops : List Op) : Nat → Exec → Nat → (Option Value × Nat)
  | 0, _, n => (none, n)
  | fuel + 1, st, n =>
    if st.pc < ops.length then
      match step o ops st with
      | none => (none, n + 1)
      | some st' => runFuel o ops fuel st' (n + 1)
    else (st.stack.head?, n)

def initExec (heap : Heap) : Exec := { stack := [], heap := heap, pc := 0, loops := [] }

/-- `Executor::new(..).run_to_end()`. Fuel `weightU ops + 1` always suffices (theorem C11). -/
def run (o : Oracles) (ops : List Op) (heap : Heap) : Option Value :=
  (runFuel o ops (weightU ops + 1) (initExec heap) 0).1

def runSteps (o : Oracles) (ops : List Op) (heap : Heap) : Nat :=
  (runFuel o ops (weightU ops + 1) (initExec heap) 0).2

/-- heap of `Executor::new_from_env` -/
def heapOfEnv (tx : Tx) (env : Option CovEnv) : Heap :=
  let h : Heap := [(HADDR_SPENDER_TX, valOfTx tx), (HADDR_SPENDER_TXHASH, .bytes tx.hash)]
  match env with
  | none => h
  | some e =>
    [ (HADDR_PARENT_TXHASH, .bytes e.parentCoinID.txhash),
      (HADDR_PARENT_INDEX, .ofNat e.parentCoinID.index),
      (HADDR_SELF_HASH, .bytes e.parentCdh.coinData.covhash),
      (HADDR_PARENT_VALUE, .ofNat e.parentCdh.coinData.value),
      (HADDR_PARENT_DENOM, .bytes e.parentCdh.coinData.denom.toBytes),
      (HADDR_PARENT_ADDITIONAL_DATA, .bytes e.parentCdh.coinData.additionalData),
      (HADDR_PARENT_HEIGHT, .ofNat e.parentCdh.height),
      (HADDR_LAST_HEADER, valOfHeader e.lastHeader),
      (HADDR_SPENDER_INDEX, .ofNat e.spenderIndex) ] ++ h

/-- `Covenant::execute(tx, env)` on decoded instructions -/
def execute (o : Oracles) (ops : List Op) (tx : Tx) (env : Option CovEnv) : Option Value :=
  run o ops (heapOfEnv tx env)

end Mel.VM
