/-
  Execution COST of a covenant (property C11): besides the number of steps (`runFuel`), the model tracks
    * the EXECUTED WEIGHT: the table weight `opWeight` of every instruction the executor starts (also the one that fails),
    * the FLATTENED BYTES: the number of bytes the executor copies out of a rope into a contiguous `Vec<u8>`
      (`Hash`, `SigEOk`, `BtoI` in lib/melvm/src/executor.rs — the quantity the hook counter `BYTES_MATERIALISED` counts),
    * the nesting DEPTH of the values held by the machine (`Value.depth` is defined in `MelModel/VM/Value.lean`).
  Model file: no Mathlib/Batteries imports (the compiled driver links it).
-/
import MelModel.VM.Exec
namespace Mel.VM
open Mel Mel.Gen

/-! ## flattened bytes -/

/-- bytes flattened (`CatVec<u8> → Vec<u8>`) by the instruction `op` on the stack `s` (head = top).
    Mirrors the arms of `execOp` for `hash`, `sigeok`, `btoi` check by check, in the order of executor.rs; a flattening
    counts as soon as it happens, also when a later check of the same instruction fails:
    * `Hash(n)`   — the operand, after the guard `len ≤ n`;
    * `SigEOk(n)` — the public key after the guard `len ≤ 32` (also a key shorter than 32 bytes is flattened: it is
                    `Ed25519PK::from_bytes` on the flattened vector that rejects it); then, for a 32-byte key, the message
                    after the guard `len ≤ n`; then the signature after the guard `len ≤ 64`;
    * `BtoI`      — the operand, after the guard `len = 32`;
    * nothing for every other opcode (and nothing when the stack has too few elements: `do_monop`/`do_triop` fail first). -/
def opFlat (op : Op) (s : List Value) : Nat :=
  match op with
  | .hash n =>
    match s with
    | .bytes b :: _ => if b.length > n.toNat then 0 else b.length
    | _ => 0
  | .sigeok n =>
    match s with
    | message :: publicKey :: signature :: _ =>
      match publicKey with
      | .bytes pk =>
        if pk.length > 32 then 0
        else pk.length +
          (if pk.length ≠ 32 then 0
           else match message with
             | .bytes msg =>
               if msg.length > n.toNat then 0
               else msg.length +
                 (match signature with
                  | .bytes sig => if sig.length > 64 then 0 else sig.length
                  | _ => 0)
             | _ => 0)
      | _ => 0
    | _ => 0
  | .btoi =>
    match s with
    | .bytes b :: _ => if b.length = 32 then b.length else 0
    | _ => 0
  | _ => 0

/-- bytes flattened by the instruction at `st.pc` in state `st` (0 beyond the end of the program).
    The oracles play no role (the flattening happens before they are called); the argument is kept so that the
    signature is that of `step`. -/
def stepFlat (_o : Oracles) (ops : List Op) (st : Exec) : Nat :=
  match ops[st.pc]? with
  | none => 0
  | some op => opFlat op st.stack

/-- table weight of the instruction at position `pc` (0 beyond the end of the program) -/
def opWeightAt (ops : List Op) (pc : Nat) : Nat :=
  match ops[pc]? with
  | none => 0
  | some op => opWeight op

/-! ## `runFuel` with cost accumulators -/

/-- the accumulators: executed steps, executed table weight, flattened bytes -/
structure Cost where
  steps : Nat := 0
  xw : Nat := 0
  flat : Nat := 0
  deriving Repr, DecidableEq, Inhabited

/-- the cost of starting the instruction at `st.pc` -/
def Cost.charge (c : Cost) (o : Oracles) (ops : List Op) (st : Exec) : Cost :=
  { steps := c.steps + 1, xw := c.xw + opWeightAt ops st.pc, flat := c.flat + stepFlat o ops st }

/-- `runFuel` that also accumulates the table weight of every executed instruction and the bytes it flattens.
    An instruction that fails is charged too (the executor has started it: `runFuel` counts it as a step as well). -/
def runCost (o : Oracles) (ops : List Op) : Nat → Exec → Cost → (Option Value × Cost)
  | 0, _, c => (none, c)
  | fuel + 1, st, c =>
    if st.pc < ops.length then
      match step o ops st with
      | none => (none, c.charge o ops st)
      | some st' => runCost o ops fuel st' (c.charge o ops st)
    else (st.stack.head?, c)

/-- cost of `Executor::new(..).run_to_end()` (same fuel as `run`) -/
def runCostOf (o : Oracles) (ops : List Op) (heap : Heap) : Option Value × Cost :=
  runCost o ops (weightU ops + 1) (initExec heap) {}

/-- the suffix the driver appends to the line of its `run` operation -/
def runCostLine (o : Oracles) (ops : List Op) (heap : Heap) : String :=
  let c := (runCostOf o ops heap).2
  s!" xw={c.xw} flat={c.flat}"

/-! ## nesting depth -/

/-- deepest value in a heap (all entries of the association list, also the shadowed ones) -/
def Heap.depth : Heap → Nat
  | [] => 0
  | (_, v) :: rest => max v.depth (Heap.depth rest)

/-- deepest value the machine holds (stack and heap) -/
def Exec.maxDepth (st : Exec) : Nat := max (Value.depth.depthList st.stack) (Heap.depth st.heap)

/-- witness that depth can grow linearly in the number of steps: `VEmpty; Loop(n, 2) { VEmpty; VPush }`
    (`vpush` takes the vector from the top of the stack and the item below it) -/
def nestProg (n : UInt16) : List Op := [.vempty, .loop n 2, .vempty, .vpush]

/-- `[]`, `[[]]`, `[[[]]]`, … -/
def nestVal : Nat → Value
  | 0 => .vec []
  | k + 1 => .vec [nestVal k]

end Mel.VM
