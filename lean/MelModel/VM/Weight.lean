/-
  Covenant weight: mirrors `opcodes_weight` / `opcodes_car_weight` (lib/melvm/src/opcode.rs).
  `weightU` is the un-saturated (mathematical) weight; `weight` is the u128-saturating value
  the code returns.  `weighWork` counts calls of `opcodes_car_weight` made by the code's
  recursion scheme (the quantity the cfg hook counts).
-/
import MelModel.VM.Op
import MelModel.Prim.Map
import MelModel.Generated.Tables
namespace Mel.VM
open Mel Mel.Gen

/-- weight of a non-`Loop` instruction (constant arms of `opcodes_car_weight`). -/
def opWeight : Op → Nat
  | .noop => wNoop
  | .add => wAdd | .sub => wSub | .mul => wMul | .div => wDiv | .rem => wRem
  | .exp k => wExpBase + wExpPerBit * (k.toNat + 1)
  | .and => wAnd | .or => wOr | .xor => wXor | .not => wNot
  | .eql => wEql | .lt => wLt | .gt => wGt | .shl => wShl | .shr => wShr
  | .hash n => wHashBase + n.toNat
  | .sigeok n => wSigEOkBase + n.toNat
  | .store => wStore | .load => wLoad | .storeimm _ => wStoreImm | .loadimm _ => wLoadImm
  | .vref => wVRef | .vappend => wVAppend | .vempty => wVEmpty | .vlength => wVLength
  | .vslice => wVSlice | .vset => wVSet | .vpush => wVPush | .vcons => wVCons
  | .bref => wBRef | .bappend => wBAppend | .bempty => wBEmpty | .blength => wBLength
  | .bslice => wBSlice | .bset => wBSet | .bpush => wBPush | .bcons => wBCons
  | .bez _ => wBez | .bnz _ => wBnz | .jmp _ => wJmp
  | .loop _ _ => wLoopExtra
  | .itob => wItoB | .btoi => wBtoI | .typeq => wTypeQ
  | .pushb _ => wPushB | .pushi _ => wPushI | .pushic _ => wPushIC
  | .dup => wDup

/-- un-saturated weight.  `fuel` bounds the nesting of the recursion on loop bodies;
    `ops.length` always suffices (every recursive call is on a strictly shorter list). -/
def weightUF : Nat → List Op → Nat
  | 0, _ => 0
  | _, [] => 0
  | fuel + 1, op :: rest =>
    (match op with
     | .loop it n => weightUF fuel (rest.take n.toNat) * it.toNat + wLoopExtra
     | op => opWeight op) + weightUF fuel rest

def weightU (ops : List Op) : Nat := weightUF (ops.length + 1) ops

/-- saturating weight, exactly as computed by the code (all intermediate sums saturate). -/
def weightSF : Nat → List Op → Nat
  | 0, _ => 0
  | _, [] => 0
  | fuel + 1, op :: rest =>
    satAdd128
      (match op with
       | .loop it n => satAdd128 (satMul128 (weightSF fuel (rest.take n.toNat)) it.toNat) wLoopExtra
       | op => opWeight op)
      (weightSF fuel rest)

def weight (ops : List Op) : Nat := weightSF (ops.length + 1) ops

/-- number of `opcodes_car_weight` calls on non-empty input made by `opcodes_weight`. -/
def weighWorkF : Nat → List Op → Nat
  | 0, _ => 0
  | _, [] => 0
  | fuel + 1, op :: rest =>
    (match op with
     | .loop _ n => 1 + weighWorkF fuel (rest.take n.toNat)
     | _ => 1) + weighWorkF fuel rest

def weighWork (ops : List Op) : Nat := weighWorkF (ops.length + 1) ops

/-! ### the weigher as implemented since the `fix:` for F2

`weight` above is the *specification* (and was, literally, the old implementation: a recursion that weighs every
loop body once for the loop and once more as part of the enclosing sequence, `weighWork` calls in all — exponential in
the nesting depth).  The implementation now computes the same number with one right-to-left pass per distinct
"end" (the end of the program and the unclipped ends of the loop bodies), in increasing order of the ends. -/

/-- where the body of the loop at position `j` ends when nothing clips it -/
def naturalEnd (n j bodyLen : Nat) : Nat := min (j + 1 + bodyLen) n

/-- the distinct ends, ascending -/
def weighEnds (ops : List Op) : List Nat :=
  let n := ops.length
  let nat := (ops.zipIdx).filterMap fun (op, j) =>
    match op with
    | .loop _ m => some (naturalEnd n j m.toNat)
    | _ => none
  Mel.sortDedup (fun a b => decide (a < b)) (nat ++ [n])

/-- one pass: positions `stop - 1, …, 0` with `suffix` = weight of `ops[j+1 .. stop)`; `tbl[j]` holds the weight of
    the loop at `j` with its unclipped body once the pass for that body's end has been made -/
def weighPass (ops : List Op) (n stop : Nat) (tbl : List (Option Nat)) : Nat × List (Option Nat) :=
  (List.range stop).reverse.foldl (fun (acc : Nat × List (Option Nat)) j =>
    let (suffix, tbl) := acc
    match (ops[j]? : Option Op) with
    | none => (suffix, tbl)
    | some (Op.loop it m) =>
      let bodyEnd := naturalEnd n j m.toNat
      match tbl[j]?.join with
      | some w => if bodyEnd < stop then (satAdd128 suffix w, tbl) else
          let w' := satAdd128 (satMul128 suffix it.toNat) wLoopExtra
          (satAdd128 suffix w', if bodyEnd = stop then tbl.set j (some w') else tbl)
      | none =>
          let w' := satAdd128 (satMul128 suffix it.toNat) wLoopExtra
          (satAdd128 suffix w', if bodyEnd = stop then tbl.set j (some w') else tbl)
    | some op => (satAdd128 suffix (opWeight op), tbl)) (0, tbl)

/-- `opcodes_weight` as implemented now -/
def weightDP (ops : List Op) : Nat :=
  let n := ops.length
  ((weighEnds ops).foldl (fun (acc : Nat × List (Option Nat)) stop =>
    weighPass ops n stop acc.2) (0, List.replicate n none)).1

/-- number of pass steps the implementation makes (the hook counter counts exactly these) -/
def weighWorkDP (ops : List Op) : Nat := ((weighEnds ops).map id).sum

end Mel.VM
