/-
  Covenant weight: mirrors `opcodes_weight` / `opcodes_car_weight` (lib/melvm/src/opcode.rs).
  `weightU` is the un-saturated (mathematical) weight; `weight` is the u128-saturating value
  the code returns.  `weighWork` counts calls of `opcodes_car_weight` made by the code's
  recursion scheme (the quantity the cfg hook counts).
-/
import MelModel.VM.Op
import MelModel.Generated.Tables
namespace Mel.VM
open Mel Mel.Gen

/-- weight of a non-`Loop` instruction (constant arms of `opcodes_car_weight`). -/
def opWeight : Op → Nat
  | .noop => wNoop
  | .add => wAdd | .sub => wSub | .mul => wMul | .div => wDiv | .rem => wRem
  | .exp k => wExpBase + wExpPerBit * (k.toNat + 1)
  | .and => wAnd | .or => wOr | .xor => wXor | .not => wNot
  | .eql => wEql | .lt => wLt | .gt => wGt | .shl => wShl | .shr => wShr
  | .hash n => wHashBase + n.toNat
  | .sigeok n => wSigEOkBase + n.toNat
  | .store => wStore | .load => wLoad | .storeimm _ => wStoreImm | .loadimm _ => wLoadImm
  | .vref => wVRef | .vappend => wVAppend | .vempty => wVEmpty | .vlength => wVLength
  | .vslice => wVSlice | .vset => wVSet | .vpush => wVPush | .vcons => wVCons
  | .bref => wBRef | .bappend => wBAppend | .bempty => wBEmpty | .blength => wBLength
  | .bslice => wBSlice | .bset => wBSet | .bpush => wBPush | .bcons => wBCons
  | .bez _ => wBez | .bnz _ => wBnz | .jmp _ => wJmp
  | .loop _ _ => wLoopExtra
  | .itob => wItoB | .btoi => wBtoI | .typeq => wTypeQ
  | .pushb _ => wPushB | .pushi _ => wPushI | .pushic _ => wPushIC
  | .dup => wDup

/-- un-saturated weight.  `fuel` bounds the nesting of the recursion on loop bodies;
    `ops.length` always suffices (every recursive call is on a strictly shorter list). -/
def weightUF : Nat → List Op → Nat
  | 0, _ => 0
  | _, [] => 0
  | fuel + 1, op :: rest =>
    (match op with
     | .loop it n => weightUF fuel (rest.take n.toNat) * it.toNat + wLoopExtra
     | op => opWeight op) + weightUF fuel rest

def weightU (ops : List Op) : Nat := weightUF (ops.length + 1) ops

/-- saturating weight, exactly as computed by the code (all intermediate sums saturate). -/
def weightSF : Nat → List Op → Nat
  | 0, _ => 0
  | _, [] => 0
  | fuel + 1, op :: rest =>
    satAdd128
      (match op with
       | .loop it n => satAdd128 (satMul128 (weightSF fuel (rest.take n.toNat)) it.toNat) wLoopExtra
       | op => opWeight op)
      (weightSF fuel rest)

def weight (ops : List Op) : Nat := weightSF (ops.length + 1) ops

/-- number of `opcodes_car_weight` calls on non-empty input made by `opcodes_weight`. -/
def weighWorkF : Nat → List Op → Nat
  | 0, _ => 0
  | _, [] => 0
  | fuel + 1, op :: rest =>
    (match op with
     | .loop _ n => 1 + weighWorkF fuel (rest.take n.toNat)
     | _ => 1) + weighWorkF fuel rest

def weighWork (ops : List Op) : Nat := weighWorkF (ops.length + 1) ops

end Mel.VM
