/-
  The standard covenants (mirrors `Covenant::std_ed25519_pk_legacy/new`, `always_true` in lib/melvm/src/lib.rs).
-/
import MelModel.VM.Exec
namespace Mel.VM
open Mel.Gen

def u16 (n : Nat) : UInt16 := UInt16.ofNat n

/-- `std_ed25519_pk_legacy(pk)`: checks the *first* signature -/
def stdEd25519Legacy (pk : Bytes) : List Op :=
  [.pushi 0, .pushi 6, .loadimm (u16 HADDR_SPENDER_TX), .vref, .vref, .pushb pk, .loadimm 1, .sigeok 32]

/-- `std_ed25519_pk_new(pk)`: checks the n-th signature when spent as the n-th input -/
def stdEd25519New (pk : Bytes) : List Op :=
  [.loadimm (u16 HADDR_SPENDER_INDEX), .pushi 6, .loadimm (u16 HADDR_SPENDER_TX), .vref, .vref, .pushb pk,
   .loadimm 1, .sigeok 32]

def alwaysTrue : List Op := [.pushi 1]

end Mel.VM
