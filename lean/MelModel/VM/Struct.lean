/-
  Structured MelVM programs: straight-line instructions and counted loops over structured bodies, with a big-step
  semantics.  The flat executor (`step`/`run` of MelModel/VM/Exec.lean) is shown to refine this semantics in
  MelModel/Props/C10Struct.lean (property C10, loops of every nesting depth).

  No Mathlib imports.  (`Op.isStraight`, `straight`, `iter`, `stepN` come from MelModel/Lemmas/Exec.lean.)
-/
import MelModel.VM.Exec
import MelModel.Lemmas.Exec
namespace Mel.VM
open Mel

/-- structured programs: straight-line instructions and counted loops over structured bodies -/
inductive SInstr where
  /-- a straight-line instruction (`o.isStraight`, see `WF`) -/
  | op (o : Op)
  /-- `it` passes over `body` -/
  | loop (it : UInt16) (body : List SInstr)
  deriving Inhabited

mutual
/-- a loop becomes `Op.loop it len` followed by the flattened body, `len` = length of the flattened body -/
def SInstr.flatten : SInstr → List Op
  | .op o => [o]
  | .loop it body => Op.loop it (UInt16.ofNat (flatten body).length) :: flatten body
/-- the flat program of a structured one -/
def flatten : List SInstr → List Op
  | [] => []
  | i :: rest => i.flatten ++ flatten rest
end

mutual
/-- Boolean form of `SInstr.WF` -/
def SInstr.wf : SInstr → Bool
  | .op o => o.isStraight
  | .loop _ body => wf body && decide (1 ≤ (flatten body).length) && decide ((flatten body).length < 65536)
/-- Boolean form of `WF` -/
def wf : List SInstr → Bool
  | [] => true
  | i :: rest => i.wf && wf rest
end

/-- well-formed instruction: `op o` is straight-line; a loop body is well-formed, non-empty after flattening and its
    flattened length fits the 16-bit length field of `Op.loop` -/
def SInstr.WF (i : SInstr) : Prop := i.wf = true

/-- well-formed structured program: every instruction is -/
def WF (P : List SInstr) : Prop := wf P = true

instance (i : SInstr) : Decidable i.WF := inferInstanceAs (Decidable (i.wf = true))
instance (P : List SInstr) : Decidable (WF P) := inferInstanceAs (Decidable (wf P = true))

mutual
/-- big-step semantics of one structured instruction on (stack, heap): an `op` acts as in `straight`;
    `loop it body` is the `it`-fold iteration of the body (`it = 0`: nothing happens); failure propagates -/
def SInstr.eval (o : Oracles) : SInstr → List Value × Heap → Option (List Value × Heap)
  | .op op, sh => straight o [op] sh
  | .loop it body, sh => iter (eval o body) it.toNat sh
/-- big-step semantics of a structured program: the instructions in order -/
def eval (o : Oracles) : List SInstr → List Value × Heap → Option (List Value × Heap)
  | [], sh => some sh
  | i :: rest, sh => (i.eval o sh).bind (eval o rest)
end

mutual
/-- number of flat machine steps of a successful structured run of one instruction: an `op` takes one step, a loop one
    step for the `loop` instruction plus `it` times the steps of its body.  (It does not depend on the state.) -/
def SInstr.steps : SInstr → Nat
  | .op _ => 1
  | .loop it body => 1 + it.toNat * stepsOf body
/-- number of flat machine steps of a successful structured run -/
def stepsOf : List SInstr → Nat
  | [] => 0
  | i :: rest => i.steps + stepsOf rest
end

/-- the structured run together with its step count -/
def evalSteps (o : Oracles) (P : List SInstr) (sh : List Value × Heap) :
    Option ((List Value × Heap) × Nat) :=
  (eval o P sh).map fun r => (r, stepsOf P)

/-- nesting depth of loops -/
def SInstr.depth : SInstr → Nat
  | .op _ => 0
  | .loop _ body => 1 + depthL body
where depthL : List SInstr → Nat
  | [] => 0
  | i :: rest => max (SInstr.depth i) (depthL rest)

end Mel.VM
