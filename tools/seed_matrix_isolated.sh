#!/bin/bash
# usage (from a snapshot of /verif, e.g. `vp run --with-repo -- bash tools/seed_matrix_isolated.sh`):
#   seed_matrix_isolated.sh [tier] [seed-dir-glob]
# Like seed_matrix.sh, but touches neither /repo nor /verif: it works in the directory it is started from (a copy of
# /verif) against a copy of the repository ($VP_RUN_REPO, or a fresh clone of /repo's HEAD), so that the checks of the
# real /verif can go on meanwhile.  Writes seeded/MATRIX.md in the copy and prints one line per seed.
set -u
tier=${1:-quick}
glob=${2:-C*}
HERE=$(pwd)
REPO=${VP_RUN_REPO:-}
if [ -z "$REPO" ]; then
  REPO=$(mktemp -d /tmp/matrix_repo.XXXX)
  git clone -q /repo "$REPO" || exit 2
fi
export VERIF_REPO=$REPO
# the harness crate has path dependencies on the repository: point them at the copy
sed -i "s#path = \"/repo#path = \"$REPO#" harness/Cargo.toml
# ... and the build output must stay inside the copy
sed -i "s#target-dir = \"/verif/harness/target\"#target-dir = \"$HERE/harness/target\"#" harness/.cargo/config.toml
grep -q "$HERE/harness/target" harness/.cargo/config.toml || { echo "could not redirect the target directory"; exit 2; }
cp $REPO/Cargo.lock harness/Cargo.lock 2>/dev/null
python3 tools/check.py setup > setup.log 2>&1 || { echo "setup failed"; tail -20 setup.log; exit 2; }
out=seeded/MATRIX.md
{
echo "# seeded changes vs the $tier tier of the property they target (isolated run at $(git -C /verif rev-parse --short HEAD 2>/dev/null))"
echo
echo "| seed | exit | summary |"
echo "|---|---|---|"
} > $out
miss=0
# the unchanged tree first: must be quiet
for d in seeded/$glob/; do
  sid=$(basename $d); p=${sid%%-*}
  if grep -q '"neutralised"' $d/meta.json; then echo "| $sid | - | neutralised by a later fix |" >> $out; echo "$sid -> neutralised"; continue; fi
  if ! git -C $REPO apply $HERE/$d/patch.diff 2>/dev/null; then echo "| $sid | patch-does-not-apply | |" >> $out; echo "$sid -> patch does not apply"; miss=$((miss+1)); continue; fi
  res=$(python3 tools/check.py run $p $tier 2>&1); rc=$?
  git -C $REPO checkout -- .
  line=$(echo "$res" | grep -E "^$p $tier:" | tail -1)
  nf=$(echo "$res" | grep -c "no-failing-input-found")
  nv=$(echo "$res" | grep -c "^VIOLATION")
  echo "| $sid | $rc | ${line} (violation lines $nv, of which no-failing-input-found $nf) |" >> $out
  echo "$sid -> exit $rc ($nv/$nf)"
  [ "$rc" = "1" ] || miss=$((miss+1))
done
echo >> $out
echo "not reported: $miss" >> $out
echo "not reported: $miss"
