"""Projections (what part of an operation's result a property depends on) and direct oracles
(the property itself evaluated on the implementation's observable results), in Python over the
line protocol.  Oracles that need extra executions of the real code live in the harness and write
`<stream>.facts`."""
import re, collections

DUMP_KEYS = ["net", "h", "fp", "fm", "tips", "ds", "coins", "counts", "extra", "pools", "stakes", "txs", "hist"]


def parse_dump(tokens):
    """tokens: list like ['net=2','h=5',...]; returns dict (lists for bracketed fields)"""
    d = {}
    for t in tokens:
        if "=" not in t:
            continue
        k, v = t.split("=", 1)
        if k not in DUMP_KEYS:
            continue
        if v.startswith("["):
            body, _, tail = v[1:].partition("]")
            d[k] = [e for e in body.split(";") if e]
            if tail:
                d[k + "_n"] = tail
        else:
            d[k] = v
    return d


def parse_result(line):
    """-> (status, dict-or-None, prefix tokens)"""
    t = line.split(" ")
    status = t[0]
    if status != "ok":
        return status, None, t[1:]
    i = next((k for k, x in enumerate(t) if x.startswith("net=")), None)
    if i is None:
        return status, None, t[1:]
    return status, parse_dump(t[i:]), t[1:i]


def parse_coin(e):
    """'txhash:idx=cov:val:denom:ad@height' -> dict"""
    cid, rest = e.split("=", 1)
    cd, h = rest.rsplit("@", 1)
    cov, val, den, ad = cd.split(":")
    return {"id": cid, "cov": cov, "value": int(val), "denom": den, "ad": ad, "height": int(h)}


MEL, SYM, ERG = "6d", "73", "64"


def supply(d):
    """per-denomination totals of a dump: coins + pool reserves (+ fee pool and tips for MEL)"""
    tot = collections.Counter()
    for e in d.get("coins", []):
        c = parse_coin(e)
        tot[c["denom"]] += c["value"]
    for e in d.get("pools", []):
        k, v = e.split("=")
        l, r, pa, lq = [int(x) for x in v.split(":")]
        left, right = pool_sides(k)
        tot[left] += l
        tot[right] += r
    tot[MEL] += int(d.get("fp", 0)) + int(d.get("tips", 0))
    return tot


def pool_sides(keyhex):
    b = bytes.fromhex(keyhex)
    if len(b) <= 32:
        other = keyhex
        # canonical order: smaller byte string is the left side
        return (other, MEL) if b < b"m" else (MEL, other)
    body = b[32:]
    ll = body[0]
    l = body[1:1 + ll]
    r = body[2 + ll:]
    return l.hex(), r.hex()


# ------------------------------------------------------------------------------ projections

def proj_all(op, line):
    return line


def proj_status(op, line):
    return line.split(" ")[0]


def _fields(line, keys, with_prefix=True):
    st, d, pre = parse_result(line)
    if d is None:
        return (st,)
    return (st, tuple(pre) if with_prefix else ()) + tuple((k, tuple(d.get(k, [])) if isinstance(d.get(k), list) else d.get(k)) for k in keys)


def proj_by_op(table, default=("status",)):
    def f(op, line):
        kind = op.split(" ")[0]
        keys = table.get(kind, default)
        if keys == ("all",):
            # which of several invalid transactions is reported is up to the parallel validation: never compare variants
            return "err" if kind in ("batch", "block") and line.startswith("err ") else line
        if keys == ("status",):
            return line.split(" ")[0]
        if keys == ("none",):
            return None
        return _fields(line, keys, with_prefix=False)
    return f


def proj_supply(op, line):
    st, d, pre = parse_result(line)
    if d is None:
        return (st,)
    return (st, tuple(sorted(supply(d).items())))


def proj_exec_semantics(op, line):
    """everything but the cost accounting (executed weight, flattened bytes): what C10 is about"""
    return re.sub(r" xw=\d+ flat=\d+", "", line)


_STATE_OPS = ("fab", "genesis", "next", "batch", "seal", "block", "restore", "confirm", "mt", "mp", "dt", "dp")


def proj_vm_and_batch_status(strip_cost):
    """VM-level operations in full (optionally without the cost accounting); of the state operations only whether a batch is
    accepted - which covenant runs approve is part of what C10 / C11 / C12 fix (every run starts from a clean machine, on the
    strict decoder's program, and is a function of bytecode, transaction and environment alone)"""
    def f(op, line):
        kind = op.split(" ")[0]
        if kind == "batch":
            return line.split(" ")[0]
        if kind in _STATE_OPS:
            return None
        return re.sub(r" xw=\d+ flat=\d+", "", line) if strip_cost else line
    return f


PROJECTIONS = {
    "all": proj_all,
    "vm_semantics_and_batch_status": proj_vm_and_batch_status(True),
    "vm_and_batch_status": proj_vm_and_batch_status(False),
    "exec_semantics": proj_exec_semantics,
    # C12: the codec operations in full; of the state operations only whether a batch is accepted (a coin whose covenant
    # hash names no program must not be spendable: the state transition function has to use the same strict decoder)
    "codec_and_status": proj_by_op({"dec": ("all",), "enc": ("all",), "w": ("all",), "std": ("all",), "batch": ("status",)}, default=("none",)),
    "status": proj_status,
    # accept/reject of everything, and the bytes of the standard covenants
    "status_std": proj_by_op({"std": ("all",), "env": ("all",)}, default=("status",)),
    "supply": proj_supply,
    "counts": proj_by_op({k: ("counts", "extra") for k in ["fab", "genesis", "next", "batch", "seal", "block", "restore"]}),
    "feemult": proj_by_op({"seal": ("fm",), "fm": ("all",), "next": ("fm",), "block": ("fm",)}, default=("none",)),
    "coins_after_batch": proj_by_op({"batch": ("coins", "extra"), "genesis": ("coins",), "fab": ("coins",)}, default=("none",)),
    "batch_all": proj_by_op({"batch": ("coins", "counts", "extra", "fp", "tips", "fm", "ds", "stakes", "txs"), "block": ("status",)}, default=("none",)),
    "fees": proj_by_op({"batch": ("fp", "tips"), "seal": ("fp", "tips", "coins"), "w": ("all",), "txlen": ("all",), "txenc": ("all",)}, default=("none",)),
    "settlement": proj_by_op({"seal": ("coins", "pools", "pools_n")}, default=("none",)),
    "pools": proj_by_op({"seal": ("pools", "pools_n"), "next": ("pools", "pools_n")}, default=("none",)),
    "stakes": proj_by_op({"batch": ("stakes",), "next": ("stakes",), "block": ("stakes",), "confirm": ("all",), "sdoc": ("all",)}, default=("none",)),
    "speed": proj_by_op({"batch": ("ds",), "powd": ("all",)}, default=("none",)),
    "chain": proj_by_op({"next": ("all",), "block": ("all",), "restore": ("all",), "mt": ("all",), "mp": ("all",), "dt": ("all",), "dp": ("all",), "hdrenc": ("all",)}, default=("none",)),
    "blocks": proj_by_op({"block": ("status",)}, default=("none",)),
    "restore": proj_by_op({"restore": ("all",), "next": ("all",)}, default=("none",)),
    "confirm": proj_by_op({"confirm": ("all",)}, default=("none",)),
    "panics": lambda op, line: "panic" if line.split(" ")[0] in ("panic", "abort", "timeout") else "no-panic",
}


# ------------------------------------------------------------------------------ direct oracles

def oracle_codec(ops, impl, model):
    """C12 on the implementation: decoded programs re-encode to the same bytes; encodable programs decode back"""
    out = []
    for i, (o, a) in enumerate(zip(ops, impl)):
        t = o.split(" ")
        if t[0] == "dec" and a.startswith("ok "):
            re_enc = a.split(" ")[2]
            if re_enc != t[1]:
                out.append({"line": i, "op": o[:500], "impl": a[:500], "detail": "decode then encode is not the identity"})
        if t[0] == "dec" and a == "panic":
            out.append({"line": i, "op": o[:500], "impl": a, "detail": "decoding panicked"})
        if t[0] == "enc" and a.startswith("ok ") and a.endswith("back=0"):
            out.append({"line": i, "op": o[:500], "impl": a[:500], "detail": "encode then decode is not the identity"})
    return out


def oracle_steps_le_weight(ops, impl, model):
    """C11 (i) on the implementation: executed steps never exceed the weight"""
    out = []
    for i, (o, a) in enumerate(zip(ops, impl)):
        if o.startswith("run ") and " le=0" in a:
            out.append({"line": i, "op": o[:800], "impl": a[:300], "detail": "executed steps exceed the covenant weight"})
        if o.startswith("run ") and a.startswith("panic"):
            out.append({"line": i, "op": o[:800], "impl": a[:300], "detail": "execution panicked"})
        m = re.search(r" w=(\d+) .* xw=(\d+) flat=(\d+)", a) if o.startswith("run ") else None
        if m:
            w, xw, flat = int(m.group(1)), int(m.group(2)), int(m.group(3))
            if w < 2 ** 128 - 1 and xw > w:
                out.append({"line": i, "op": o[:800], "impl": a[:300], "detail": "the table weight of the executed instructions exceeds the covenant weight"})
            if flat > xw:
                out.append({"line": i, "op": o[:800], "impl": a[:300], "detail": "more bytes were flattened out of ropes than the executed instructions weigh"})
    return out


def oracle_exec_entrypoints(ops, impl, model):
    out = []
    for i, (o, a) in enumerate(zip(ops, impl)):
        if o.startswith("run ") and " dbg=0" in a:
            out.append({"line": i, "op": o[:800], "impl": a[:300], "detail": "debug_execute disagrees with the stepped executor"})
    return out


def oracle_feemult(ops, impl, model):
    """C17 on the implementation: exact step inside the representable range, never a panic or wrap"""
    out = []
    for i, (o, a) in enumerate(zip(ops, impl)):
        t = o.split(" ")
        if t[0] != "fm":
            continue
        m, d, tip = int(t[1]), int(t[2]), t[3] == "1"
        if not a.startswith("ok "):
            out.append({"line": i, "op": o, "impl": a, "detail": "sealing with a proposer action failed", "mult": m, "delta": d})
            continue
        if a.endswith("none-changed"):
            out.append({"line": i, "op": o, "impl": a, "detail": "sealing without an action changed the multiplier"})
        got = int(a.split(" ")[1])
        mm = max(m // 128, 2) if tip else m // 128
        num = mm * d
        step = -((-num) // 128) if num < 0 else num // 128   # truncation toward zero
        want = min(max(m + step, 0), 2 ** 128 - 1)
        if got != want:
            out.append({"line": i, "op": o, "impl": a, "detail": "multiplier moved to %d, specified %d" % (got, want), "mult": m, "delta": d})
    return out


def oracle_confirm(ops, impl, model):
    """C14 on the implementation, from the stake set dumped by the preceding `fab` line"""
    out = []
    stakes = []
    height = 0
    for i, (o, a) in enumerate(zip(ops, impl)):
        t = o.split(" ")
        if t[0] == "fab":
            st, d, _ = parse_result(a)
            stakes = []
            if d:
                height = int(d["h"])
                for e in d.get("stakes", []):
                    _, v = e.split("=")
                    pk, s, en, amt = v.split(":")
                    stakes.append((pk, int(s), int(en), int(amt)))
        if t[0] != "confirm":
            continue
        epoch = height // 200000
        entries = [] if t[4] == "-" else [e.split(":") for e in t[4].split(",")]
        total = sum(amt for pk, s, en, amt in stakes if s <= epoch < en)
        present = sum(amt for pk, s, en, amt in stakes if s <= epoch < en and pk in [e[0] for e in entries])
        allvalid = all(e[2] == "1" for e in entries)
        if a == "panic":
            out.append({"line": i, "op": o[:600], "impl": a, "detail": "confirm panicked"})
            continue
        got = a == "some"
        if total == 0:
            continue
        if got and not allvalid:
            out.append({"line": i, "op": o[:600], "impl": a, "detail": "confirmed with an invalid signature"})
        if total >= 2 ** 128 - 1:
            # the tally is not representable in a u128: nothing may confirm (a wrapped total would let a sliver confirm)
            if got:
                out.append({"line": i, "op": o[:600], "impl": a, "detail": "confirmed although the epoch's total stake (%d) does not fit a u128" % total})
            continue
        if allvalid and 3 * present > 2 * total and not got:
            out.append({"line": i, "op": o[:600], "impl": a, "detail": "valid >2/3 majority (%d of %d) not confirmed" % (present, total)})
        if 3 * present <= 2 * total and got:
            out.append({"line": i, "op": o[:600], "impl": a, "detail": "not more than 2/3 (%d of %d) confirmed" % (present, total)})
    return out


def tip906_active(net, height):
    if net == 255:
        return height >= 830000
    if net == 1:
        return height >= 500
    return True


def oracle_counts(ops, impl, model):
    """C20 on the implementation: count entry of every covenant hash = number of its coins, no zero entries"""
    out = []
    for i, (o, a) in enumerate(zip(ops, impl)):
        kind = o.split(" ")[0]
        if kind not in ("fab", "genesis", "next", "batch", "seal", "block", "restore"):
            continue
        st, d, _ = parse_result(a)
        if d is None:
            continue
        if not tip906_active(int(d["net"]), int(d["h"])):
            continue
        want = collections.Counter(parse_coin(e)["cov"] for e in d.get("coins", []))
        got = {}
        for e in d.get("counts", []):
            k, v = e.split("=")
            got[k] = int(v)
        if d.get("extra"):
            out.append({"line": i, "op": o[:300], "detail": "unknown entries in the coin tree: %s" % d["extra"][:3]})
        if dict(want) != got:
            bad = [(k, want.get(k, 0), got.get(k)) for k in set(want) | set(got) if want.get(k, 0) != got.get(k, 0) or got.get(k) == 0]
            out.append({"line": i, "op": o[:600], "detail": "count entries differ from the number of coins (covhash, coins, entry): %s" % bad[:3], "opkind": kind})
    return out


ORACLES = {
    "codec": oracle_codec,
    "steps_le_weight": oracle_steps_le_weight,
    "exec_entrypoints": oracle_exec_entrypoints,
    "feemult": oracle_feemult,
    "confirm": oracle_confirm,
    "counts": oracle_counts,
}


def summarize_distribution(dist):
    """collapse the per-label counters of the harness into a readable summary"""
    agg = collections.Counter()
    for k, v in dist.items():
        stream, _, key = k.partition(":")
        parts = key.split(":")
        if parts[0] in ("batch-ok", "batch-err", "batch-panic"):
            agg["%s:%s%s" % (stream, parts[0], (":" + parts[-1]) if parts[0] == "batch-err" else "")] += v
            if parts[0] == "batch-ok" and len(parts) > 1:
                for l in parts[1].split("/"):
                    agg["%s:accepted-tx:%s" % (stream, l.split("+")[0] or "empty")] += v
            for l in (parts[1].split("/") if len(parts) > 1 else []):
                for mut in l.split("+")[1:]:
                    agg["%s:mutation:%s" % (stream, mut)] += v
        elif parts[0].startswith("block"):
            agg["%s:%s:%s" % (stream, parts[0], parts[1].split(".")[0] if len(parts) > 1 else "")] += v
        else:
            agg["%s:%s" % (stream, key)] += v
    return dict(sorted(agg.items()))


# ==================================================================================================
# state-level oracles: walk a stream, tracking the implementation's states by name
# ==================================================================================================

def parse_tx(tok):
    f = tok.split("|")
    if len(f) != 12:
        return None
    lst = lambda s: [] if s == "-" else s.split(",")
    tx = {"kind": int(f[0]), "inputs": lst(f[1]), "fee": int(f[3]), "covenants": lst(f[4]), "data": f[5], "sigs": lst(f[6]),
          "hash": f[7], "rawlen": int(f[8]), "stakedoc": None if f[10] == "-" else f[10].split(":"), "pow": f[11], "outputs": []}
    for o in lst(f[2]):
        cov, val, den, ad = o.split(":")
        tx["outputs"].append({"cov": cov, "value": int(val), "denom": den, "ad": ad})
    return tx


ZERO = "00" * 32
K_NORMAL, K_STAKE, K_DOSC, K_SWAP, K_DEP, K_WD, K_FAUCET = 0x00, 0x10, 0x50, 0x51, 0x52, 0x53, 0xff


def parse_oracle_items(tok):
    d = {"f": {}, "g": set(), "l": {}, "r": {}, "p": {}}
    if tok == "-":
        return d
    for it in tok.split(","):
        p = it.split(":")
        if p[0] == "f":
            d["f"][p[1]] = p[2]
        elif p[0] == "g":
            d["g"].add(p[1])
        elif p[0] == "l":
            d["l"][p[1]] = p[2]
        elif p[0] == "r":
            d["r"][int(p[1])] = p[2]
        elif p[0] == "p" and len(p) == 7:
            d["p"][p[5]] = p[6]          # tx hash -> verdict
    return d


def walk(ops, impl):
    """yields (i, kind, tokens, pre_state_dump, post_state_dump_or_None, status, txs, oracle_items)"""
    states = {}
    txdb = {}
    HIST.clear()
    for i, (o, a) in enumerate(zip(ops, impl)):
        t = o.split(" ")
        kind = t[0]
        st, d, pre = parse_result(a)
        if kind == "reset":
            states = {}
            txdb = {}
            continue
        if kind in ("fab", "genesis"):
            if d is not None:
                states[t[1]] = d
                hs = {}
                if kind == "fab" and t[10] != "-":
                    for e in t[10].split(";"):
                        f = e.split("@")[0].split(":")
                        hs[int(f[2])] = int(f[8])
                HIST[t[1]] = hs
            yield i, kind, t, None, d, st, [], {}
        elif kind in ("next", "seal", "restore"):
            p = states.get(t[1])
            if d is not None:
                states[t[2]] = d
                hs = dict(HIST.get(t[1], {}))
                if kind == "next" and pre:
                    f = pre[0].split(":")
                    if len(f) == 11:
                        hs[int(f[2])] = int(f[8])
                HIST[t[2]] = hs
            orc = parse_oracle_items(t[4]) if kind == "seal" else {}
            blocktxs = [txdb.get(h) for h in (p or {}).get("txs", [])] if kind == "seal" else []
            yield i, kind, t, p, d, st, blocktxs, orc
        elif kind == "batch":
            p = states.get(t[1])
            txs = [] if t[5:] == ["-"] else [parse_tx(x) for x in t[5:]]
            for x in txs:
                if x is not None:
                    txdb[x["hash"]] = x
            if d is not None:
                states[t[2]] = d
                HIST[t[2]] = HIST.get(t[1], {})
            yield i, kind, t, p, d, st, txs, parse_oracle_items(t[4])
        elif kind == "block":
            p = states.get(t[1])
            txs = [] if t[10:] == ["-"] else [parse_tx(x) for x in t[10:]]
            for x in txs:
                if x is not None:
                    txdb[x["hash"]] = x
            if d is not None:
                states[t[2]] = d
            yield i, kind, t, p, d, st, txs, parse_oracle_items(t[9])


HIST = {}
_INFL = [1000000]


def microergs(h):
    while len(_INFL) <= h:
        last = _INFL[-1]
        _INFL.append(max(last + 1, last + last // 2000000))
    return _INFL[h]


def oracle_mint(ops, impl, model):
    """C18: an accepted ERG mint creates no more ERG than the inflated reward computed from the measured speed and the
    previous block's DOSC speed; the recorded speed is the maximum of its old value and the demonstrated speeds"""
    out = []
    for i, kind, t, pre, post, st, txs, orc in walk(ops, impl):
        if kind != "batch" or pre is None or post is None or any(x is None for x in txs):
            continue
        h = int(pre["h"])
        hist = HIST.get(t[1], {})
        c0 = coins_dict(pre)
        created = {}
        for tx in txs:
            for k, o in enumerate(tx["outputs"]):
                created["%s:%d" % (tx["hash"], k)] = h
        speeds = [int(pre["ds"])]
        for tx in txs:
            if tx["kind"] != K_DOSC or not tx["inputs"]:
                continue
            cid = tx["inputs"][0]
            ch = created.get(cid, c0[cid]["height"] if cid in c0 else None)
            verdict = orc["p"].get(tx["hash"])
            if ch is None or tx["pow"] == "-":
                out.append({"line": i, "op": " ".join(t)[:2000], "opkind": "batch", "detail": "accepted an ERG mint without a decodable proof / resolvable coin"})
                continue
            d = int(tx["pow"].split(":")[0])
            if verdict not in ("legacy", "tip910"):
                out.append({"line": i, "op": " ".join(t)[:2000], "opkind": "batch", "detail": "accepted an ERG mint whose proof does not verify for the puzzle of (header at coin height %d, first input): verdict %s" % (ch, verdict)})
                continue
            if int(pre["net"]) == 255 and h - ch < 100:
                out.append({"line": i, "op": " ".join(t)[:2000], "opkind": "batch", "detail": "accepted a mainnet ERG mint of a coin only %d blocks old" % (h - ch)})
            if h - ch <= 0 or (h - 1) not in hist:
                continue
            tip910 = verdict == "tip910"
            speed = (100 if tip910 else 1) * 2 ** d // (h - ch)
            speeds.append(speed)
            work = min(2 ** d * 100, 2 ** 128 - 1) if tip910 else 2 ** d
            prev = hist[h - 1]
            if prev == 0:
                continue
            reward = min(work * speed * 1000000 // (prev * prev * 2880), 2 ** 128 - 1)
            bound = microergs(h) * reward // 1000000
            erg = sum(o["value"] for o in tx["outputs"] if o["denom"] == ERG)
            if erg > bound:
                out.append({"line": i, "op": " ".join(t)[:2000], "opkind": "batch",
                            "detail": "ERG mint creates %d micro-ERG, the reward bound is %d (difficulty %d, age %d, previous speed %d, %s hash)" % (erg, bound, d, h - ch, prev, verdict)})
        if int(post["ds"]) != max(speeds):
            out.append({"line": i, "op": " ".join(t)[:2000], "opkind": "batch", "detail": "DOSC speed after the batch is %s, expected max(old, demonstrated) = %d" % (post["ds"], max(speeds))})
    return out


def coins_dict(d):
    return {c["id"]: c for c in (parse_coin(e) for e in d.get("coins", []))}


def legacy(net, height, limit):
    return net in (255, 1) and height < limit


def oracle_utxo_reference(ops, impl, model):
    """C02: after an accepted batch the coin set equals an independent map-based reference:
    previous coins - inputs + outputs (not destroyed; NewCustom -> Custom(txhash); creating height) + faucet markers;
    accepted batches spend only existing-or-created coins, each at most once."""
    out = []
    for i, kind, t, pre, post, st, txs, orc in walk(ops, impl):
        if kind != "batch" or pre is None or post is None or any(x is None for x in txs):
            continue
        h = int(pre["h"])
        ref = coins_dict(pre)
        created = {}
        for tx in txs:
            for k, o in enumerate(tx["outputs"]):
                if o["cov"] == ZERO:
                    continue
                den = tx["hash"] if o["denom"] == "" else o["denom"]
                created["%s:%d" % (tx["hash"], k)] = {"id": "%s:%d" % (tx["hash"], k), "cov": o["cov"], "value": o["value"], "denom": den, "ad": o["ad"], "height": h}
        inputs = [x for tx in txs for x in tx["inputs"]]
        problems = []
        if len(set(inputs)) != len(inputs):
            problems.append("accepted batch spends a coin twice")
        for x in inputs:
            if x not in ref and x not in created:
                problems.append("accepted batch spends missing coin %s" % x[:20])
        ref.update(created)
        for tx in txs:
            if tx["kind"] == K_FAUCET and tx["hash"] not in orc["g"]:
                m = "%s:0" % orc["f"].get(tx["hash"], "?")
                ref[m] = {"id": m, "cov": ZERO, "value": 0, "denom": MEL, "ad": "", "height": 0}
        for x in inputs:
            ref.pop(x, None)
        got = coins_dict(post)
        if got != ref:
            lost = [k for k in ref if k not in got][:3]
            extra = [k for k in got if k not in ref][:3]
            diff = [k for k in ref if k in got and got[k] != ref[k]][:3]
            problems.append("coin set differs from reference: missing %s unexpected %s altered %s" % (lost, extra, diff))
        for p in problems:
            out.append({"line": i, "op": " ".join(t)[:3000], "detail": p, "opkind": "batch"})
    return out


def declared_issuance(txs, orc):
    """what a batch may create out of nothing, per denomination"""
    iss = collections.Counter()
    for tx in txs:
        if tx["kind"] == K_FAUCET:
            for o in tx["outputs"]:
                den = tx["hash"] if o["denom"] == "" else o["denom"]
                if o["cov"] != ZERO:
                    iss[den] += o["value"]
            iss[MEL] += tx["fee"]
        else:
            for o in tx["outputs"]:
                if o["denom"] == "" and o["cov"] != ZERO:
                    iss[tx["hash"]] += o["value"]
                if tx["kind"] == K_DOSC and o["denom"] == ERG and o["cov"] != ZERO:
                    iss[ERG] += o["value"]
    return iss


def oracle_conservation(ops, impl, model):
    """C01: totals per denomination never grow except by the declared issuance of a batch; at sealing only MEL/SYM
    (subsidy, peg — bounded by the proven model's own result) and liquidity tokens (C16) may grow"""
    out = []
    mstates = {}
    for (i, kind, t, pre, post, st, txs, orc), (_, _, _, mpre, mpost, _, _, _) in zip(walk(ops, impl), walk(ops, model)):
        if pre is None or post is None:
            continue
        a, b = supply(pre), supply(post)
        if kind == "batch":
            if any(x is None for x in txs):
                continue
            iss = declared_issuance(txs, orc)
            for den in set(a) | set(b):
                if b[den] > a[den] + iss[den]:
                    out.append({"line": i, "op": " ".join(t)[:3000], "opkind": "batch",
                                "detail": "denomination %s grew from %d to %d, declared issuance %d" % (den[:16] or "(newcustom)", a[den], b[den], iss[den])})
        elif kind == "next":
            for den in set(a) | set(b):
                if b[den] != a[den]:
                    out.append({"line": i, "op": " ".join(t)[:300], "opkind": "next", "detail": "next_unsealed changed the total of %s" % den[:16]})
        elif kind == "block":
            # next_unsealed + batch + seal in one step: declared issuance of the batch, plus what sealing may add
            if any(x is None for x in txs):
                continue
            iss = declared_issuance(txs, orc)
            liq = set(orc.get("l", {}).values())
            bound = supply(mpost) if mpost is not None else None
            pre_pools = set(e.split("=")[0] for e in pre.get("pools", []))
            for e in post.get("pools", []):
                k = e.split("=")[0]
                if k not in pre_pools and k in ("73", "64", ZERO + "016401" + "73"):
                    l, r = pool_sides(k)
                    iss[l] += 10 ** 9
                    iss[r] += 10 ** 9
            leg = legacy(int(pre["net"]), int(pre["h"]) + 1, 978392) and any(x["kind"] == K_DEP for x in txs)
            for den in set(a) | set(b):
                if den in liq:
                    continue
                if den in (MEL, SYM):
                    if bound is not None and b[den] > max(bound[den], a[den] + iss[den]):
                        out.append({"line": i, "op": " ".join(t)[:600], "opkind": "block",
                                    "detail": "applying the block grew %s from %d to %d, more than issuance+subsidy+peg allow (%d)" % (den, a[den], b[den], bound[den])})
                elif b[den] > a[den] + iss[den]:
                    out.append({"line": i, "op": " ".join(t)[:600], "opkind": "block", "legacy": "deposit-window" if leg else "no",
                                "detail": "sealing grew denomination %s from %d to %d (block; declared issuance %d)" % (den[:16], a[den], b[den], iss[den])})
        elif kind == "seal":
            liq = set(orc.get("l", {}).values())
            bound = supply(mpost) if mpost is not None else None
            # the nobody-owned initial liquidity of a builtin pool created by this seal (10^9 on each side)
            pre_pools = set(e.split("=")[0] for e in pre.get("pools", []))
            for e in post.get("pools", []):
                k = e.split("=")[0]
                if k not in pre_pools and k in ("73", "64", ZERO + "016401" + "73"):
                    l, r = pool_sides(k)
                    a[l] += 10 ** 9
                    a[r] += 10 ** 9
            for den in set(a) | set(b):
                if den in liq:
                    continue
                if den in (MEL, SYM):
                    if bound is not None and b[den] > max(bound[den], a[den]):
                        out.append({"line": i, "op": " ".join(t)[:600], "opkind": "seal",
                                    "detail": "sealing grew %s from %d to %d, more than subsidy+peg allow (%d)" % (den, a[den], b[den], bound[den])})
                elif b[den] > a[den]:
                    legacy_dep = legacy(int(pre["net"]), int(pre["h"]), 978392) and any(x is not None and x["kind"] == K_DEP for x in txs)
                    out.append({"line": i, "op": " ".join(t)[:600], "opkind": "seal", "legacy": "deposit-window" if legacy_dep else "no",
                                "detail": "sealing grew denomination %s from %d to %d" % (den[:16], a[den], b[den])})
    return out


def oracle_fees(ops, impl, model):
    """C05: fee pool + tips grow by exactly the fees of an accepted batch (each part monotonically); the proposer
    reward is one coin worth fee_pool/65536 + tips and both accumulators drop by exactly that"""
    out = []
    for i, kind, t, pre, post, st, txs, orc in walk(ops, impl):
        if pre is None or post is None:
            continue
        fp0, tp0, fp1, tp1 = int(pre["fp"]), int(pre["tips"]), int(post["fp"]), int(post["tips"])
        if kind == "batch" and not any(x is None for x in txs):
            fees = sum(tx["fee"] for tx in txs)
            if fp1 + tp1 != fp0 + tp0 + fees and fp0 + tp0 + fees < 2 ** 128 - 1:
                out.append({"line": i, "op": " ".join(t)[:3000], "opkind": "batch", "detail": "fee pool + tips moved by %d, fees paid %d" % (fp1 + tp1 - fp0 - tp0, fees)})
            if fp1 < fp0 or tp1 < tp0:
                out.append({"line": i, "op": " ".join(t)[:3000], "opkind": "batch", "detail": "fee pool or tips decreased in a batch"})
        if kind == "seal":
            h = int(pre["h"])
            rid = "%s:0" % orc["r"].get(h, "?")
            c0, c1 = coins_dict(pre), coins_dict(post)
            if t[3] == "-":
                if tp1 != tp0:
                    out.append({"line": i, "op": " ".join(t)[:600], "opkind": "seal", "detail": "sealing without an action changed the tips"})
                if rid in c1 and rid not in c0:
                    out.append({"line": i, "op": " ".join(t)[:600], "opkind": "seal", "detail": "reward coin created without a proposer action"})
            else:
                dest = t[3].split(":")[1]
                rc = c1.get(rid)
                if rc is None:
                    out.append({"line": i, "op": " ".join(t)[:600], "opkind": "seal", "detail": "no reward coin after sealing with an action"})
                    continue
                base = rc["value"] - tp0
                fp2 = fp1 + base            # fee pool after Melmint and subsidy, before the reward was taken
                if base < 0 or base != fp2 >> 16 or tp1 != 0 or rc["cov"] != dest or rc["denom"] != MEL or rc["height"] != h:
                    out.append({"line": i, "op": " ".join(t)[:600], "opkind": "seal",
                                "detail": "reward coin %s does not equal fee_pool/65536 + tips (fee pool before reward %d, tips %d, tips after %d)" % (rc, fp2, tp0, tp1)})
    return out


def oracle_stakes(ops, impl, model):
    """C13: registration exactly under the stated conditions; no accepted batch spends an output of a registered stake"""
    out = []
    for i, kind, t, pre, post, st, txs, orc in walk(ops, impl):
        if pre is None:
            continue
        net, h = int(pre["net"]), int(pre["h"])
        stakes0 = {e.split("=")[0]: e.split("=")[1] for e in pre.get("stakes", [])}
        if kind == "batch" and post is not None and not any(x is None for x in txs):
            stakes1 = {e.split("=")[0]: e.split("=")[1] for e in post.get("stakes", [])}
            epoch = h // 200000
            want = dict(stakes0)
            newly = set()
            for tx in txs:
                if tx["kind"] != K_STAKE or legacy(net, h, 500000):
                    continue
                sd = tx["stakedoc"]
                if sd is None or not tx["outputs"] or tx["outputs"][0]["denom"] != SYM:
                    out.append({"line": i, "op": " ".join(t)[:3000], "opkind": "batch", "detail": "accepted a malformed stake transaction"})
                    continue
                pk, s, e, amt = sd[0], int(sd[1]), int(sd[2]), int(sd[3])
                if s > epoch and e > s and amt == tx["outputs"][0]["value"]:
                    want[tx["hash"]] = ":".join(sd)
                    newly.add(tx["hash"])
            if want != stakes1:
                out.append({"line": i, "op": " ".join(t)[:3000], "opkind": "batch", "detail": "stake set after the batch differs from the registration rule: expected %d entries, got %d" % (len(want), len(stakes1))})
            if not legacy(net, h, 900000):
                for tx in txs:
                    for x in tx["inputs"]:
                        if x.split(":")[0] in stakes0 or x.split(":")[0] in newly:
                            out.append({"line": i, "op": " ".join(t)[:3000], "opkind": "batch", "detail": "accepted a spend of an output of a registered stake (%s)" % x[:24]})
        if kind == "next" and post is not None:
            stakes1 = {e.split("=")[0]: e.split("=")[1] for e in post.get("stakes", [])}
            ep = int(post["h"]) // 200000
            want = {k: v for k, v in stakes0.items() if int(v.split(":")[2]) >= ep}
            if want != stakes1:
                out.append({"line": i, "op": " ".join(t)[:300], "opkind": "next", "detail": "stakes after next_unsealed differ from 'retain e_post_end >= epoch'"})
    return out


def oracle_faucet(ops, impl, model):
    """C19: no faucet accepted on mainnet (except the grandfathered hash); a faucet whose marker exists is rejected"""
    out = []
    for i, kind, t, pre, post, st, txs, orc in walk(ops, impl):
        if kind not in ("batch", "block") or pre is None or any(x is None for x in txs):
            continue
        accepted = post is not None
        net = int(pre["net"])
        c0 = coins_dict(pre)
        for tx in txs:
            if tx["kind"] != K_FAUCET:
                continue
            marker = "%s:0" % orc["f"].get(tx["hash"], "?")
            if accepted and net == 255 and tx["hash"] not in orc["g"]:
                out.append({"line": i, "op": " ".join(t)[:3000], "opkind": kind, "detail": "faucet accepted on mainnet"})
            if accepted and kind == "batch" and marker in c0:
                out.append({"line": i, "op": " ".join(t)[:3000], "opkind": kind, "detail": "faucet accepted although its marker is already in the coin set (replay)"})
            if accepted and kind == "batch" and tx["hash"] not in orc["g"] and marker not in coins_dict(post):
                out.append({"line": i, "op": " ".join(t)[:3000], "opkind": kind, "detail": "accepted faucet left no marker"})
            if accepted and sum(1 for x in txs if x["hash"] == tx["hash"]) > 1 and tx["hash"] not in orc["g"]:
                out.append({"line": i, "op": " ".join(t)[:3000], "opkind": kind, "detail": "the same faucet accepted twice in one batch"})
    return out


def oracle_panics(ops, impl, model):
    """C09: applying and sealing never panic"""
    out = []
    ctx = {}
    for i, kind, t, pre, post, st, txs, orc in walk(ops, impl):
        if kind == "seal":
            liq = set(orc.get("l", {}).values())
            minted = any(x is not None and x["kind"] == K_FAUCET and any(o["denom"] in liq for o in x["outputs"]) for x in txs)
            held = pre is not None and any(c["denom"] in liq for c in coins_dict(pre).values())
            ctx[i] = "yes" if (minted or held) else "no"
    for i, (o, a) in enumerate(zip(ops, impl)):
        if a.split(" ")[0] in ("panic", "abort", "timeout"):
            m = model[i].split(" ")[0] if i < len(model) else "?"
            out.append({"line": i, "op": o[:3000], "detail": "the implementation panicked", "opkind": o.split(" ")[0], "impl": a,
                        "model_status": m, "liq_tokens_in_play": ctx.get(i, "n/a")})
    return out


BUILTINS = [("73", 0), ("64", 0), (ZERO + "01" + "64" + "01" + "73", 180000)]


def tip902(net, h):
    return h >= 180000 if net == 255 else (h >= 500 if net == 1 else True)


def oracle_pools(ops, impl, model):
    """C16: after every seal the builtin pools exist with reserves; liquidity tokens in coins never exceed pool.liqs"""
    out = []
    faucet_minted = set()      # liquidity-token denominations a faucet has minted in this history (K-faucet-liq)
    legacy_dup = set()         # denominations deposited as a second output inside the legacy window (K-legacy-deposit)
    for i, kind, t, pre, post, st, txs, orc in walk(ops, impl):
        if kind in ("fab", "genesis"):
            faucet_minted = set()
            legacy_dup = set()
        if kind in ("batch", "block") and post is not None:
            for x in txs:
                if x is not None and x["kind"] == K_FAUCET:
                    for o in x["outputs"]:
                        faucet_minted.add(o["denom"])
                # K-legacy-deposit: in the historical window a deposit's second output stays spendable, so whatever
                # denomination it carries (possibly another pool's liquidity token) is duplicated by a later withdrawal
                if x is not None and x["kind"] == K_DEP and len(x["outputs"]) > 1 and legacy(int(post["net"]), int(post["h"]), 978392):
                    legacy_dup.add(x["outputs"][1]["denom"])
        if kind != "seal" or post is None:
            continue
        net, h = int(post["net"]), int(post["h"])
        pools = {}
        for e in post.get("pools", []):
            k, v = e.split("=")
            pools[k] = [int(x) for x in v.split(":")]
        need = ["73", "64"] + ([ZERO + "016401" + "73"] if tip902(net, h) else [])
        for k in need:
            if k not in pools or pools[k][0] == 0 or pools[k][1] == 0:
                out.append({"line": i, "op": " ".join(t)[:600], "opkind": "seal", "detail": "builtin pool %s missing or without reserves: %s" % (k[-6:], pools.get(k))})
        liq = orc.get("l", {})
        held = collections.Counter()
        for c in coins_dict(post).values():
            held[c["denom"]] += c["value"]
        for kb, den in liq.items():
            if held[den] > 0:
                p = pools.get(kb)
                if p is None or held[den] > p[3]:
                    out.append({"line": i, "op": " ".join(t)[:600], "opkind": "seal", "pool": kb[-8:],
                                "faucet_minted": "yes" if den in faucet_minted else "no",
                                "legacy": "deposit-window" if den in legacy_dup else "no",
                                "detail": "liquidity tokens held (%d) exceed the pool's recorded liquidity (%s)" % (held[den], None if p is None else p[3])})
    return out


def canonical_pool_key(data_hex):
    """the pool named by a request's data in its one accepted spelling -> (keyhex, left, right) or None"""
    try:
        b = bytes.fromhex(data_hex)
    except ValueError:
        return None
    if len(b) <= 32:
        if b in (b"s", b"d") or len(b) == 32:
            l, r = pool_sides(data_hex)
            if l == "" or r == "":
                return None
            return data_hex, l, r
        return None
    if b[:32] != bytes(32):
        return None
    body = b[32:]
    if len(body) < 2:
        return None
    ll = body[0]
    if ll >= 251 or 1 + ll >= len(body):
        return None
    l = body[1:1 + ll]
    lr = body[1 + ll]
    r = body[2 + ll:]
    if lr != len(r):
        return None
    ok = lambda x: x in (b"m", b"s", b"d") or len(x) == 32
    if not ok(l) or not ok(r) or not (l < r) or l == b"m" or r == b"m":
        return None
    return data_hex, l.hex(), r.hex()


def oracle_settlement(ops, impl, model):
    """C15: sealing transforms only the outputs of swap / deposit / withdrawal transactions whose data names a pool
    canonically; a rewritten swap output is in the other denomination of the named pool; the reserves of a
    non-builtin pool move by exactly what coins lost and gained; swapping never lowers a pool's product"""
    out = []
    for i, kind, t, pre, post, st, txs, orc in walk(ops, impl):
        if kind != "seal" or pre is None or post is None:
            continue
        h = int(pre["h"])
        rid = orc["r"].get(h)
        c0, c1 = coins_dict(pre), coins_dict(post)
        txhashes = {x["hash"]: x for x in txs if x is not None}
        # (1) kind filter
        for cid in set(c0) | set(c1):
            th = cid.split(":")[0]
            if th == rid:
                continue
            if c0.get(cid) == c1.get(cid):
                continue
            tx = txhashes.get(th)
            if tx is None:
                out.append({"line": i, "op": " ".join(t)[:500], "opkind": "seal", "detail": "sealing changed coin %s which belongs to no transaction of the block" % cid[:24]})
                continue
            key = canonical_pool_key(tx["data"])
            if tx["kind"] not in (K_SWAP, K_DEP, K_WD) or key is None:
                out.append({"line": i, "op": " ".join(t)[:500], "opkind": "seal",
                            "detail": "sealing changed output %s of a transaction of kind %#x with data %s that is not a pool request" % (cid[-10:], tx["kind"], tx["data"][:80])})
                continue
            _, left, right = key
            new = c1.get(cid)
            if tx["kind"] == K_SWAP and new is not None:
                old = c0.get(cid)
                if old is None or {old["denom"], new["denom"]} != {left, right}:
                    out.append({"line": i, "op": " ".join(t)[:500], "opkind": "seal",
                                "detail": "swap output moved from denomination %s to %s, pool sides are %s / %s" % (old and old["denom"][:12], new["denom"][:12], left[:12], right[:12])})
        # (1b) reserves move by exactly the amounts taken from or paid into coins (up to the rounding dust of the
        # pro-rata split, at most one unit per request), for every pool that is not touched by pegging / subsidy
        reqs_by_pool = collections.defaultdict(list)
        for tx in txhashes.values():
            key = canonical_pool_key(tx["data"])
            if key and tx["kind"] in (K_SWAP, K_DEP, K_WD):
                reqs_by_pool[key].append(tx)
        pp0 = {e.split("=")[0]: [int(x) for x in e.split("=")[1].split(":")] for e in pre.get("pools", [])}
        pp1 = {e.split("=")[0]: [int(x) for x in e.split("=")[1].split(":")] for e in post.get("pools", [])}
        for (kb, left, right), rtx in reqs_by_pool.items():
            if kb in ("73", ZERO + "016401" + "73"):
                continue
            # a builtin pool that did not exist yet is created with 10^9 on each side before any request is settled
            r0 = pp0.get(kb, [10 ** 9, 10 ** 9, 0, 0] if kb == "64" else [0, 0, 0, 0])
            r1 = pp1.get(kb)
            if r1 is None:
                continue
            for side, den in ((0, left), (1, right)):
                delta_coins = 0
                for tx in rtx:
                    for idx in (0, 1):
                        cid = "%s:%d" % (tx["hash"], idx)
                        a0, a1 = c0.get(cid), c1.get(cid)
                        delta_coins += (a1["value"] if a1 and a1["denom"] == den else 0) - (a0["value"] if a0 and a0["denom"] == den else 0)
                delta_res = r1[side] - r0[side]
                # what the requests bring in on this side; beyond a u128 the request total and the reserve saturate
                # (melmint.rs: saturating sums) - such a block needs more than 2^127 of one denomination in existence,
                # which the supply premise of the properties excludes (DESIGN section 8, ninth round)
                inflow = sum(a0["value"] for tx in rtx for idx in (0, 1)
                             for a0 in [c0.get("%s:%d" % (tx["hash"], idx))] if a0 and a0["denom"] == den)
                if inflow + r0[side] >= 2 ** 128:
                    continue
                if not (-delta_coins - len(rtx) <= delta_res <= -delta_coins):
                    leg = legacy(int(pre["net"]), h, 978392) and any(x["kind"] == K_DEP for x in rtx)
                    out.append({"line": i, "op": " ".join(t)[:500], "opkind": "seal", "legacy": "deposit-window" if leg else "no",
                                "detail": "sealing grew: pool %s side %s reserve moved by %d while coins of that denomination moved by %d (%d requests)" % (kb[-8:], den[:8], delta_res, delta_coins, len(rtx))})
        # (2) product of pools that only saw swaps
        p0 = {e.split("=")[0]: [int(x) for x in e.split("=")[1].split(":")] for e in pre.get("pools", [])}
        p1 = {e.split("=")[0]: [int(x) for x in e.split("=")[1].split(":")] for e in post.get("pools", [])}
        kinds_by_pool = collections.defaultdict(set)
        for tx in txhashes.values():
            key = canonical_pool_key(tx["data"])
            if key and tx["kind"] in (K_SWAP, K_DEP, K_WD):
                kinds_by_pool[key[0]].add(tx["kind"])
        for k, ks in kinds_by_pool.items():
            if ks == {K_SWAP} and k in p0 and k in p1 and k not in ("73", "64", ZERO + "016401" + "73"):
                if p1[k][0] * p1[k][1] < p0[k][0] * p0[k][1]:
                    out.append({"line": i, "op": " ".join(t)[:500], "opkind": "seal", "detail": "swapping lowered the reserve product of pool %s: %s -> %s" % (k[-8:], p0[k][:2], p1[k][:2])})
    return out


ORACLES.update({
    "mint": oracle_mint,
    "settlement": oracle_settlement,
    "utxo_reference": oracle_utxo_reference,
    "conservation": oracle_conservation,
    "fees": oracle_fees,
    "stakes": oracle_stakes,
    "faucet": oracle_faucet,
    "panics": oracle_panics,
    "pools": oracle_pools,
})
