"""Projections (what part of an operation's result a property depends on) and direct oracles
(the property itself evaluated on the implementation's observable results), in Python over the
line protocol.  Oracles that need extra executions of the real code live in the harness and write
`<stream>.facts`."""
import re, collections

DUMP_KEYS = ["net", "h", "fp", "fm", "tips", "ds", "coins", "counts", "extra", "pools", "stakes", "txs", "hist"]


def parse_dump(tokens):
    """tokens: list like ['net=2','h=5',...]; returns dict (lists for bracketed fields)"""
    d = {}
    for t in tokens:
        if "=" not in t:
            continue
        k, v = t.split("=", 1)
        if k not in DUMP_KEYS:
            continue
        if v.startswith("["):
            body, _, tail = v[1:].partition("]")
            d[k] = [e for e in body.split(";") if e]
            if tail:
                d[k + "_n"] = tail
        else:
            d[k] = v
    return d


def parse_result(line):
    """-> (status, dict-or-None, prefix tokens)"""
    t = line.split(" ")
    status = t[0]
    if status != "ok":
        return status, None, t[1:]
    i = next((k for k, x in enumerate(t) if x.startswith("net=")), None)
    if i is None:
        return status, None, t[1:]
    return status, parse_dump(t[i:]), t[1:i]


def parse_coin(e):
    """'txhash:idx=cov:val:denom:ad@height' -> dict"""
    cid, rest = e.split("=", 1)
    cd, h = rest.rsplit("@", 1)
    cov, val, den, ad = cd.split(":")
    return {"id": cid, "cov": cov, "value": int(val), "denom": den, "ad": ad, "height": int(h)}


MEL, SYM, ERG = "6d", "73", "64"


def supply(d):
    """per-denomination totals of a dump: coins + pool reserves (+ fee pool and tips for MEL)"""
    tot = collections.Counter()
    for e in d.get("coins", []):
        c = parse_coin(e)
        tot[c["denom"]] += c["value"]
    for e in d.get("pools", []):
        k, v = e.split("=")
        l, r, pa, lq = [int(x) for x in v.split(":")]
        left, right = pool_sides(k)
        tot[left] += l
        tot[right] += r
    tot[MEL] += int(d.get("fp", 0)) + int(d.get("tips", 0))
    return tot


def pool_sides(keyhex):
    b = bytes.fromhex(keyhex)
    if len(b) <= 32:
        other = keyhex
        # canonical order: smaller byte string is the left side
        return (other, MEL) if b < b"m" else (MEL, other)
    body = b[32:]
    ll = body[0]
    l = body[1:1 + ll]
    r = body[2 + ll:]
    return l.hex(), r.hex()


# ------------------------------------------------------------------------------ projections

def proj_all(op, line):
    return line


def proj_status(op, line):
    return line.split(" ")[0]


def _fields(line, keys, with_prefix=True):
    st, d, pre = parse_result(line)
    if d is None:
        return (st,)
    return (st, tuple(pre) if with_prefix else ()) + tuple((k, tuple(d.get(k, [])) if isinstance(d.get(k), list) else d.get(k)) for k in keys)


def proj_by_op(table, default=("status",)):
    def f(op, line):
        kind = op.split(" ")[0]
        keys = table.get(kind, default)
        if keys == ("all",):
            return line
        if keys == ("status",):
            return line.split(" ")[0]
        if keys == ("none",):
            return None
        return _fields(line, keys, with_prefix=False)
    return f


def proj_supply(op, line):
    st, d, pre = parse_result(line)
    if d is None:
        return (st,)
    return (st, tuple(sorted(supply(d).items())))


PROJECTIONS = {
    "all": proj_all,
    "status": proj_status,
    "supply": proj_supply,
    "counts": proj_by_op({k: ("counts", "extra") for k in ["fab", "genesis", "next", "batch", "seal", "block", "restore"]}),
    "feemult": proj_by_op({"seal": ("fm",), "fm": ("all",), "next": ("fm",), "block": ("fm",)}, default=("none",)),
    "coins_after_batch": proj_by_op({"batch": ("coins", "extra"), "genesis": ("coins",), "fab": ("coins",)}, default=("none",)),
    "fees": proj_by_op({"batch": ("fp", "tips"), "seal": ("fp", "tips", "coins")}, default=("none",)),
    "settlement": proj_by_op({"seal": ("coins", "pools", "pools_n")}, default=("none",)),
    "pools": proj_by_op({"seal": ("pools", "pools_n"), "next": ("pools", "pools_n")}, default=("none",)),
    "stakes": proj_by_op({"batch": ("stakes",), "next": ("stakes",), "block": ("stakes",)}, default=("none",)),
    "speed": proj_by_op({"batch": ("ds",)}, default=("none",)),
    "chain": proj_by_op({"next": ("all",), "block": ("all",), "restore": ("all",)}, default=("none",)),
    "blocks": proj_by_op({"block": ("status",)}, default=("none",)),
    "restore": proj_by_op({"restore": ("all",), "next": ("all",)}, default=("none",)),
    "confirm": proj_by_op({"confirm": ("all",)}, default=("none",)),
    "panics": lambda op, line: "panic" if line.split(" ")[0] in ("panic", "abort", "timeout") else "no-panic",
}


# ------------------------------------------------------------------------------ direct oracles

def oracle_codec(ops, impl, model):
    """C12 on the implementation: decoded programs re-encode to the same bytes; encodable programs decode back"""
    out = []
    for i, (o, a) in enumerate(zip(ops, impl)):
        t = o.split(" ")
        if t[0] == "dec" and a.startswith("ok "):
            re_enc = a.split(" ")[2]
            if re_enc != t[1]:
                out.append({"line": i, "op": o[:500], "impl": a[:500], "detail": "decode then encode is not the identity"})
        if t[0] == "dec" and a == "panic":
            out.append({"line": i, "op": o[:500], "impl": a, "detail": "decoding panicked"})
        if t[0] == "enc" and a.startswith("ok ") and a.endswith("back=0"):
            out.append({"line": i, "op": o[:500], "impl": a[:500], "detail": "encode then decode is not the identity"})
    return out


def oracle_steps_le_weight(ops, impl, model):
    """C11 (i) on the implementation: executed steps never exceed the weight"""
    out = []
    for i, (o, a) in enumerate(zip(ops, impl)):
        if o.startswith("run ") and " le=0" in a:
            out.append({"line": i, "op": o[:800], "impl": a[:300], "detail": "executed steps exceed the covenant weight"})
        if o.startswith("run ") and a.startswith("panic"):
            out.append({"line": i, "op": o[:800], "impl": a[:300], "detail": "execution panicked"})
    return out


def oracle_exec_entrypoints(ops, impl, model):
    out = []
    for i, (o, a) in enumerate(zip(ops, impl)):
        if o.startswith("run ") and a.endswith("dbg=0"):
            out.append({"line": i, "op": o[:800], "impl": a[:300], "detail": "debug_execute disagrees with the stepped executor"})
    return out


def oracle_feemult(ops, impl, model):
    """C17 on the implementation: exact step inside the representable range, never a panic or wrap"""
    out = []
    for i, (o, a) in enumerate(zip(ops, impl)):
        t = o.split(" ")
        if t[0] != "fm":
            continue
        m, d, tip = int(t[1]), int(t[2]), t[3] == "1"
        if not a.startswith("ok "):
            out.append({"line": i, "op": o, "impl": a, "detail": "sealing with a proposer action failed", "mult": m, "delta": d})
            continue
        if a.endswith("none-changed"):
            out.append({"line": i, "op": o, "impl": a, "detail": "sealing without an action changed the multiplier"})
        got = int(a.split(" ")[1])
        mm = max(m // 128, 2) if tip else m // 128
        num = mm * d
        step = -((-num) // 128) if num < 0 else num // 128   # truncation toward zero
        want = min(max(m + step, 0), 2 ** 128 - 1)
        if got != want:
            out.append({"line": i, "op": o, "impl": a, "detail": "multiplier moved to %d, specified %d" % (got, want), "mult": m, "delta": d})
    return out


def oracle_confirm(ops, impl, model):
    """C14 on the implementation, from the stake set dumped by the preceding `fab` line"""
    out = []
    stakes = []
    height = 0
    for i, (o, a) in enumerate(zip(ops, impl)):
        t = o.split(" ")
        if t[0] == "fab":
            st, d, _ = parse_result(a)
            stakes = []
            if d:
                height = int(d["h"])
                for e in d.get("stakes", []):
                    _, v = e.split("=")
                    pk, s, en, amt = v.split(":")
                    stakes.append((pk, int(s), int(en), int(amt)))
        if t[0] != "confirm":
            continue
        epoch = height // 200000
        entries = [] if t[4] == "-" else [e.split(":") for e in t[4].split(",")]
        total = sum(amt for pk, s, en, amt in stakes if s <= epoch < en)
        present = sum(amt for pk, s, en, amt in stakes if s <= epoch < en and pk in [e[0] for e in entries])
        allvalid = all(e[2] == "1" for e in entries)
        if a == "panic":
            out.append({"line": i, "op": o[:600], "impl": a, "detail": "confirm panicked"})
            continue
        got = a == "some"
        if total == 0:
            continue
        if got and not allvalid:
            out.append({"line": i, "op": o[:600], "impl": a, "detail": "confirmed with an invalid signature"})
        if allvalid and 3 * present > 2 * total and not got:
            out.append({"line": i, "op": o[:600], "impl": a, "detail": "valid >2/3 majority (%d of %d) not confirmed" % (present, total)})
        if 3 * present < 2 * total and got:
            out.append({"line": i, "op": o[:600], "impl": a, "detail": "<2/3 (%d of %d) confirmed" % (present, total)})
    return out


def tip906_active(net, height):
    if net == 255:
        return height >= 830000
    if net == 1:
        return height >= 500
    return True


def oracle_counts(ops, impl, model):
    """C20 on the implementation: count entry of every covenant hash = number of its coins, no zero entries"""
    out = []
    for i, (o, a) in enumerate(zip(ops, impl)):
        kind = o.split(" ")[0]
        if kind not in ("fab", "genesis", "next", "batch", "seal", "block", "restore"):
            continue
        st, d, _ = parse_result(a)
        if d is None:
            continue
        if not tip906_active(int(d["net"]), int(d["h"])):
            continue
        want = collections.Counter(parse_coin(e)["cov"] for e in d.get("coins", []))
        got = {}
        for e in d.get("counts", []):
            k, v = e.split("=")
            got[k] = int(v)
        if d.get("extra"):
            out.append({"line": i, "op": o[:300], "detail": "unknown entries in the coin tree: %s" % d["extra"][:3]})
        if dict(want) != got:
            bad = [(k, want.get(k, 0), got.get(k)) for k in set(want) | set(got) if want.get(k, 0) != got.get(k, 0) or got.get(k) == 0]
            out.append({"line": i, "op": o[:600], "detail": "count entries differ from the number of coins (covhash, coins, entry): %s" % bad[:3], "opkind": kind})
    return out


ORACLES = {
    "codec": oracle_codec,
    "steps_le_weight": oracle_steps_le_weight,
    "exec_entrypoints": oracle_exec_entrypoints,
    "feemult": oracle_feemult,
    "confirm": oracle_confirm,
    "counts": oracle_counts,
}


def summarize_distribution(dist):
    """collapse the per-label counters of the harness into a readable summary"""
    agg = collections.Counter()
    for k, v in dist.items():
        stream, _, key = k.partition(":")
        parts = key.split(":")
        if parts[0] in ("batch-ok", "batch-err", "batch-panic"):
            agg["%s:%s%s" % (stream, parts[0], (":" + parts[-1]) if parts[0] == "batch-err" else "")] += v
            if parts[0] == "batch-ok" and len(parts) > 1:
                for l in parts[1].split("/"):
                    agg["%s:accepted-tx:%s" % (stream, l.split("+")[0] or "empty")] += v
            for l in (parts[1].split("/") if len(parts) > 1 else []):
                for mut in l.split("+")[1:]:
                    agg["%s:mutation:%s" % (stream, mut)] += v
        elif parts[0].startswith("block"):
            agg["%s:%s:%s" % (stream, parts[0], parts[1].split(".")[0] if len(parts) > 1 else "")] += v
        else:
            agg["%s:%s" % (stream, key)] += v
    return dict(sorted(agg.items()))
