#!/bin/bash
# usage: process_seed.sh <worktree-prefix e.g. /tmp/seed4_> <Cxx> [other properties to try as well]
# confirms the seeded change in its worktree (suite + demo with/without) and runs the quick check(s) against it
pre=$1; p=$2; shift 2
W=${pre}$p
echo "##### $p  ($(grep -c '' $W/out/patch.diff 2>/dev/null) patch lines; files: $(grep '^+++ ' $W/out/patch.diff | sed 's#+++ b/##' | tr '\n' ' '))"
/verif/tools/confirm_seed.sh $p $W 2>&1 | grep -E "^-- with patch: demo|^-- without|test result" | grep -v " 0 passed; 0 failed" | sed 's/; 0 ignored.*//' | tr '\n' '|' ; echo
for q in $p "$@"; do
  /verif/tools/try_seed.sh $W/out/patch.diff $q 2>&1 | grep -E "^$q quick|patch does not apply" | cut -c1-200
done
