"""Per-property configuration of tools/check.py."""

TRUSTED_BASE = [
    "Lean 4.33.0 kernel; axioms allowed: propext, Classical.choice, Quot.sound (audited via #print axioms on every property theorem on every run); no sorry/admit/native_decide/bv_decide/implemented_by/unsafe (source audit on every run)",
    "hand-written Lean model of melstf/melvm/tip911-stakeset (lean/MelModel/*.lean), tied to /repo by (1) tools/gen_tables.py re-extracting opcode bytes, encode/decode arms, weight arms, TIP heights and numeric constants from the working tree before every build and (2) the correspondence check: harness (real code, rebuilt from /repo with --cfg melstf_verif) vs lean_exe driver on the same generated operations",
    "tools/gen_tables.py, tools/check.py, tools/oracles.py, harness/src/*.rs, lean/Driver.lean, lean/MelModel/Proto*.lean (translator and correspondence machinery; not verified)",
    "dependency crates are modelled, not verified: melstructs (PoolState arithmetic, PoolKey parsing, base_fee/weight, is_well_formed, total_outputs), novasmt, catvec (ropes modelled as lists), melpow, tmelcrypt (blake3, Ed25519), stdcode/bincode",
]

COMMON_ASSUMPTIONS = [
    "blake3 / Ed25519 / MelPoW / serialisation are parameters of the model; the harness supplies the values the real primitives computed",
    "the correspondence check is differential testing: its reach is that of the generators (input distribution recorded in coverage.input_distribution)",
]

VM = {"name": "exec", "quick": 1500, "thorough": 120000}

PROPS = {
    "C09": {
        "modules": ["C09", "C09Seal", "C09Reach", "C09Supply"],
        "streams": [{"name": "hostile", "quick": 210, "thorough": 9600}, {"name": "apply", "quick": 75, "thorough": 3200},
                    {"name": "seal", "quick": 180, "thorough": 3200}, {"name": "chain", "quick": 45, "thorough": 2000},
                    {"name": "exec", "quick": 600, "thorough": 60000}, {"name": "feemult", "quick": 100, "thorough": 4500},
                    # decoding stake documents and proof-of-work payloads never panics, whatever the bytes
                    {"name": "stdcode", "quick": 300, "thorough": 6000}],
        "projection": "panics",
        "oracles": ["panics"],
        "assumptions": ["C09_apply_total / C09_seal_total assume the reachable-state invariants bundled in ApplyPre / SealTotalPre (count invariant, fresh coin ids, coin heights, supply bounds, sane pools, positive recorded speeds, history below the height) and exclude by explicit hypothesis only the 2^74-work reward overflow (the former exclusions F9 — melpow panics — and F19 — weight sum overflow — were repaired in /repo and are no longer assumed)",
                        "native stack overflow (F17) and allocation failure are runtime behaviour outside the model; each generated case runs under catch_unwind, the witnesses in their own process"],
    },
    "C10": {
        "modules": ["C10", "C10Struct"],
        "streams": [{"name": "exec", "quick": 2500, "thorough": 180000}, {"name": "codec", "quick": 200, "thorough": 6000},
                    # covenant runs as the state transition function makes them (Covenant::execute with an environment, several
                    # inputs per transaction, the same spend offered again with other signatures): every run is a function of
                    # bytecode, transaction and environment alone
                    {"name": "cov", "quick": 120, "thorough": 4800}],
        # results, step counts and weights - not the cost accounting (executed weight, flattened bytes), which is C11's
        "projection": "vm_semantics_and_batch_status",
        "verdict_is_spec": True,
        # the laws proved in Props/C10.lean about the model ARE the specification: an input on which the real
        # executor and the model disagree is an input on which the property fails
        "model_is_spec": True,
        "oracles": ["exec_entrypoints", "steps_le_weight"],
        "assumptions": ["the MelVM specification used as oracle is the list of laws stated in Props/C10.lean (the opcode reference text is not available offline)",
                        "catvec ropes are modelled as lists; cases in which a value grows beyond 2^16 elements are discarded by the generator"],
    },
    "C11": {
        "modules": ["C11", "C11Cost"],
        "streams": [{"name": "exec", "quick": 2500, "thorough": 180000}, {"name": "weight", "quick": 400, "thorough": 18000},
                    # several covenants run for one transaction: each starts from a clean machine (a stale loop frame makes the
                    # next covenant replay instructions its weight never paid for - visible as a changed verdict)
                    {"name": "cov", "quick": 120, "thorough": 4800}],
        "projection": "vm_and_batch_status",
        "verdict_is_spec": True,
        "oracles": ["steps_le_weight"],
        "assumptions": ["real time and memory are tied to the cost model only through the hook counters: steps of the weigher's passes, bytes flattened out of ropes (compared with the model's `flat` on every executed program), the executed table weight (recomputed by the harness per executed instruction and compared with the model's `xw`), and the counting allocator (fact allocation-bounded-by-weight)",
                        "the native stack depth needed to drop a nested value is runtime behaviour; the model bounds the nesting depth (C11_depth_le_weight) and shows the bound is reached (C11_depth_witness): finding F17 stays open"],
    },
    "C12": {
        "modules": ["C12"],
        "streams": [{"name": "codec", "quick": 1500, "thorough": 90000}, {"name": "weight", "quick": 200, "thorough": 9000},
                    # coins locked by byte strings that name no program (non-canonical integers, truncated literals, unknown
                    # opcodes) on every network and height regime: the state transition function must use the strict decoder
                    {"name": "cov", "quick": 120, "thorough": 4800}],
        "projection": "codec_and_status",
        # which batches are accepted is fixed by the property ("a covenant hash denotes exactly one program")
        "verdict_is_spec": True,
        "oracles": ["codec"],
    },
    "C14": {
        "modules": ["C14", "C14Hist"],
        "streams": [{"name": "confirm", "quick": 60, "thorough": 3200}],
        "projection": "confirm",
        "oracles": ["confirm"],
        "assumptions": ["Ed25519 verification is a parameter: the verdict for each (key, signature) pair is the one the real verify returned"],
    },
    "C15": {
        "modules": ["C15", "C15Block", "PinC15"],
        "streams": [{"name": "seal", "quick": 180, "thorough": 7200}],
        "projection": "settlement",
        "oracles": ["settlement"],
        "assumptions": ["PoolState arithmetic and PoolKey parsing live in the dependency melstructs: modelled (exact Nat arithmetic for BigRational floor), compared on every seal"],
    },
    "C16": {
        "modules": ["C16", "C16Hist", "C16Run", "C09Reach", "PinC16"],
        "streams": [{"name": "seal", "quick": 180, "thorough": 7200},
                    # chains fabricated just below the activation heights: a user-opened ERG/SYM pool emptied before TIP-902
                    {"name": "activation", "quick": 60, "thorough": 2400}],
        "projection": "pools",
        "oracles": ["pools"],
    },
    "C17": {
        "modules": ["C17", "C17Hist", "PinC17"],
        "streams": [{"name": "feemult", "quick": 300, "thorough": 9000}, {"name": "seal", "quick": 75, "thorough": 2400}, {"name": "activation", "quick": 75, "thorough": 2400}],
        "projection": "feemult",
        "oracles": ["feemult"],
    },
    "C01": {
        "modules": ["C01", "C01Seal", "C01Whole", "C01Hist", "PinC01"],
        "streams": [{"name": "apply", "quick": 150, "thorough": 6400}, {"name": "seal", "quick": 150, "thorough": 6400}, {"name": "chain", "quick": 60, "thorough": 2400}],
        "projection": "supply",
        "oracles": ["conservation"],
        "assumptions": ["C01_settlement assumes the block's coins are as declared (Faithful — what C02_exact establishes), unique keys/hashes and a per-denomination coin total below 2^128",
                        "the bounded peg adjustment is mirrored, not bounded by a theorem: proved is that pegging touches nothing but the MEL/SYM pool"],
    },
    "C02": {
        # the property fixes which batches / blocks are accepted: an input on which the implementation accepts what the
        # proved model rejects (or the other way round) is an input on which the property fails
        "verdict_is_spec": True,
        "modules": ["C02", "C02Hist", "CodecTx"],
        "streams": [{"name": "apply", "quick": 180, "thorough": 7200}, {"name": "chain", "quick": 75, "thorough": 2400},
                    # "unlocked": spends of staked coins around the epoch boundaries of their stakes (fabricated histories)
                    {"name": "stake", "quick": 90, "thorough": 3200}],
        "projection": "coins_after_batch",
        "oracles": ["utxo_reference"],
        "assumptions": ["faucet marker ids are disjoint from transaction hashes (domain-separated keyed hash) — hypothesis MarkersApart of C02_exact"],
    },
    "C03": {
        "modules": ["C03", "C03Seq", "C03Sched", "CodecTx"],
        "streams": [{"name": "apply", "quick": 135, "thorough": 4800, "rayon": [1, 4, 2, 16]}, {"name": "chain", "quick": 60, "thorough": 2400, "rayon": [1, 3]},
                    {"name": "mint", "quick": 180, "thorough": 4800}],
        "projection": "batch_all",
        "compare_rayon": True,
        "oracles": [],
        "assumptions": ["rayon scheduling, FxHashMap/HashSet iteration order and cross-process hash seeds cannot be exhibited by a theorem: exercised by re-running every small batch in all permutations, the same seed under several RAYON_NUM_THREADS values (outputs must be byte-identical) and blocks whose transaction sets iterate in arbitrary order",
                        "C03_perm assumes hash-distinct transactions, fresh created coin ids, the count invariant and that faucet pseudo-coins are not spent inside the batch (PermPre)"],
    },
    "C04": {
        # the property fixes which batches / blocks are accepted: an input on which the implementation accepts what the
        # proved model rejects (or the other way round) is an input on which the property fails
        "verdict_is_spec": True,
        "modules": ["C04", "C04Hist"],
        "streams": [{"name": "apply", "quick": 120, "thorough": 4800}, {"name": "cov", "quick": 150, "thorough": 4800}, {"name": "exec", "quick": 500, "thorough": 30000}],
        "projection": "status_std",
        "oracles": [],
        "assumptions": ["Ed25519 verification and blake3 are parameters: the model is given the answers the real executor obtained (hook log) and a missing answer is a disagreement"],
    },
    "C05": {
        # the property fixes which batches / blocks are accepted: an input on which the implementation accepts what the
        # proved model rejects (or the other way round) is an input on which the property fails
        "verdict_is_spec": True,
        "modules": ["C05", "C05Hist", "PinC05", "Codec", "CodecTie", "CodecTx"],
        "streams": [{"name": "apply", "quick": 180, "thorough": 7200}, {"name": "seal", "quick": 90, "thorough": 3200}, {"name": "weight", "quick": 200, "thorough": 9000},
                    # hostile mutations that bear on fees: covenants listed several times whose weights approach or pass a u128
                    {"name": "hostile", "quick": 100, "thorough": 3200},
                    # the size term of the weight: stdcode::serialize(tx).len() against the model's txLen
                    {"name": "stdcode", "quick": 300, "thorough": 6000}],
        "projection": "fees",
        "oracles": ["fees"],
        "assumptions": ["the serialised length of a transaction is computed by the model from the transaction's content (Stdcode.txLen, mirrors the serde layout of melstructs::Transaction under stdcode/bincode); the length the implementation reports is compared with it on every transaction of every batch and block (a difference is reported as `stdcode-mismatch`) and on the transactions of the stdcode stream"],
    },
    "C06": {
        # the property fixes which batches / blocks are accepted: an input on which the implementation accepts what the
        # proved model rejects (or the other way round) is an input on which the property fails
        "verdict_is_spec": True,
        "modules": ["C06", "C06Hist"],
        "streams": [{"name": "chain", "quick": 120, "thorough": 4000},
                    # blocks next to the TIP activation heights, offered to the node that ran through and to a restarted one
                    {"name": "activation", "quick": 60, "thorough": 2400},
                    # blocks and restarts next to the epoch boundaries of registered stakes (a stake that has just run out is
                    # still in the set for one epoch)
                    {"name": "stake", "quick": 60, "thorough": 2400}],
        "projection": "blocks",
        "oracles": [],
        "assumptions": ["a block's header equality is decided on the real headers; the model computes the scalar header fields itself and is given the Merkle roots of the states involved"],
    },
    "C07": {
        "modules": ["C07", "C07Chain", "C07Hist", "C07Dense", "C07TxRoot", "CodecHdr", "PinC07"],
        "streams": [{"name": "chain", "quick": 90, "thorough": 4000}, {"name": "activation", "quick": 90, "thorough": 3200}, {"name": "merkle", "quick": 40, "thorough": 2400},
                    # the preimage of the header hash: stdcode::serialize(header) against the model's encodeHeader
                    {"name": "stdcode", "quick": 300, "thorough": 6000}],
        "projection": "chain",
        "oracles": [],
        "assumptions": ["blake3 collision-freeness enters as the explicit hypotheses `Injective` / `RootsInjective` of the soundness and sensitivity theorems",
                        "novasmt's hexary node compression and node store are exercised, not modelled"],
    },
    "C08": {
        "modules": ["C08", "C08Reach"],
        "streams": [{"name": "chain", "quick": 120, "thorough": 4000},
                    # restarts next to the TIP activation heights (a restarted node must treat the activation block like
                    # the node that ran through: built-in pools, count migration)
                    {"name": "activation", "quick": 90, "thorough": 2400},
                    # restarts next to the epoch boundaries of registered stakes
                    {"name": "stake", "quick": 60, "thorough": 2400}],
        "projection": "restore",
        "oracles": [],
        "assumptions": ["the content-addressed store is not modelled: fromBlock is given the tree contents the header's roots denote"],
    },
    "C13": {
        # the property fixes which batches / blocks are accepted: an input on which the implementation accepts what the
        # proved model rejects (or the other way round) is an input on which the property fails
        "verdict_is_spec": True,
        "modules": ["C13", "C13Life", "C14Hist", "PinC13", "Codec", "CodecTie"],
        "streams": [{"name": "stake", "quick": 180, "thorough": 6400}, {"name": "apply", "quick": 90, "thorough": 3200}, {"name": "chain", "quick": 60, "thorough": 2400},
                    {"name": "confirm", "quick": 60, "thorough": 3200},
                    # the decoder of the declared stake: stdcode::deserialize::<StakeDoc> against the model's decodeStakeDoc
                    {"name": "stdcode", "quick": 300, "thorough": 6000}],
        "projection": "stakes",
        # voting power (start <= epoch < end, summed per key) is observable through confirmation decisions
        "oracles": ["stakes", "confirm"],
        "assumptions": ["the StakeDoc a transaction declares is decoded by the model itself (Stdcode.decodeStakeDoc, mirrors stdcode/bincode: varint integers, non-minimal forms accepted, trailing bytes rejected); what the real stdcode decodes is compared with it on every transaction of every batch and block and on the byte strings of the stdcode stream"],
    },
    "C18": {
        # the property fixes which batches / blocks are accepted: an input on which the implementation accepts what the
        # proved model rejects (or the other way round) is an input on which the property fails
        "verdict_is_spec": True,
        "modules": ["C18", "C18Hist", "PinC18", "Codec", "CodecTie"],
        "streams": [{"name": "mint", "quick": 360, "thorough": 12000}, {"name": "apply", "quick": 90, "thorough": 3200},
                    # the decoder of the stated difficulty: stdcode::deserialize::<(u32, Vec<u8>)> against the model's decodePow
                    {"name": "stdcode", "quick": 300, "thorough": 6000}],
        "projection": "speed",
        "oracles": ["mint"],
        "assumptions": ["MelPoW verification is a parameter: the verdict for the puzzle (header at the coin's height, coin id) is computed by the harness from the specification with the real melpow and shipped to the model"],
    },
    "C19": {
        # the property fixes which batches / blocks are accepted: an input on which the implementation accepts what the
        # proved model rejects (or the other way round) is an input on which the property fails
        "verdict_is_spec": True,
        "modules": ["C19", "C19Life", "C19Hist"],
        "streams": [{"name": "faucet", "quick": 180, "thorough": 6400}, {"name": "apply", "quick": 90, "thorough": 3200}, {"name": "chain", "quick": 60, "thorough": 2400}],
        "projection": "coins_after_batch",
        "oracles": ["faucet"],
        "assumptions": ["no covenant hashes to the zero address; marker ids are disjoint from transaction hashes and reward ids (keyed-hash domain separation)"],
    },
    "C20": {
        "modules": ["C20", "C20Hist", "Reach", "PinC20"],
        "streams": [{"name": "activation", "quick": 90, "thorough": 3200}, {"name": "apply", "quick": 120, "thorough": 4800}, {"name": "seal", "quick": 120, "thorough": 4800}, {"name": "chain", "quick": 90, "thorough": 3200}],
        "projection": "counts",
        "oracles": ["counts"],
    },
}
