#!/bin/bash
# usage: try_seed.sh <patch.diff> <Cxx> [<Cyy> ...]  -- applies a seeded change to /repo, runs the quick checks, undoes it
set -u
patch=$1; shift
cd /repo && git apply "$patch" || { echo "patch does not apply"; exit 2; }
cd /verif
for p in "$@"; do
  out=$(python3 tools/check.py run $p ${TIER:-quick} 2>&1)
  rc=$?
  echo "$out" | grep -E "VIOLATION|KNOWN-FINDING|-> " | cut -c1-260
  echo "   [$p exit $rc]"
done
git -C /repo checkout -- . && git -C /repo status --short | head -3
# evidence written while the seeded change was applied must not be kept
git -C /verif checkout -- evidence 2>/dev/null
