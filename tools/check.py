#!/usr/bin/env python3
"""Orchestrates one property check.

  check.py run <Cxx> [quick|thorough]    tier also from $VERIF_TIER, seed from $VERIF_SEED
  check.py replay <replay.json>
  check.py setup

A check = (a) proof obligations: the property's Lean theorem modules build, contain no sorry and
depend on whitelisted axioms only, with the generated tables re-extracted from /repo first;
(b) correspondence: the real implementation (harness, rebuilt from /repo) and the Lean model's
executable definitions (driver) agree on the projection of every generated operation that the
property depends on; (c) direct oracles: the property itself evaluated on the implementation's
observable results.  See DESIGN.md §3.
"""
import sys, os, json, subprocess, time, re, fcntl, hashlib, shutil, collections

ROOT = os.path.dirname(os.path.dirname(os.path.abspath(__file__)))
sys.path.insert(0, os.path.join(ROOT, "tools"))
LEAN = os.path.join(ROOT, "lean")
HARNESS = os.path.join(ROOT, "harness")
WORK = os.path.join(ROOT, ".work")
EVID = os.path.join(ROOT, "evidence")
REPLAYS = os.path.join(EVID, "replays")
DRIVER = os.path.join(LEAN, ".lake", "build", "bin", "driver")
HBIN = os.path.join(HARNESS, "target", "debug", "melstf-verif-harness")
SHARDS = 12
QSHARDS = 4
AXIOM_WHITELIST = {"propext", "Classical.choice", "Quot.sound"}
FORBIDDEN = ["sorry", "admit", "native_decide", "bv_decide", "implemented_by", "unsafe ", "maxHeartbeats 0"]

import props as P   # per-property configuration (tools/props.py)
import source_fingerprint as SF  # which source files of /repo differ from the tree the committed baseline was taken from
import oracles as O  # python-side direct oracles and projections (tools/oracles.py)


def sh(cmd, cwd=None, env=None, timeout=None):
    e = dict(os.environ)
    e["CARGO_NET_OFFLINE"] = "true"
    if env:
        e.update(env)
    p = subprocess.run(cmd, cwd=cwd, env=e, stdout=subprocess.PIPE, stderr=subprocess.STDOUT, text=True, timeout=timeout, shell=isinstance(cmd, str))
    return p.returncode, p.stdout


class Lock:
    def __init__(self, name):
        os.makedirs(WORK, exist_ok=True)
        self.path = os.path.join(WORK, name + ".lock")

    def __enter__(self):
        self.f = open(self.path, "w")
        fcntl.flock(self.f, fcntl.LOCK_EX)
        return self

    def __exit__(self, *a):
        fcntl.flock(self.f, fcntl.LOCK_UN)
        self.f.close()


# ------------------------------------------------------------------------------ building

def strip_lean_comments(text):
    text = re.sub(r"/-.*?-/", "", text, flags=re.S)
    text = re.sub(r"--[^\n]*", "", text)
    return text


def audit_sources(modules):
    """forbidden constructs in the Lean sources of the given modules' import closure (all of lean/)"""
    hits = []
    for dp, dn, fn in os.walk(os.path.join(LEAN, "MelModel")):
        for f in fn:
            if f.endswith(".lean"):
                p = os.path.join(dp, f)
                # property files of other properties are not in this property's import closure
                if os.path.basename(dp) == "Props" and f[:-5] not in modules:
                    continue
                t = strip_lean_comments(open(p).read())
                for tok in FORBIDDEN:
                    if tok in t:
                        hits.append((os.path.relpath(p, LEAN), tok))
                if re.search(r"^\s*axiom\s", t, flags=re.M):
                    hits.append((os.path.relpath(p, LEAN), "axiom"))
    return hits


def recheck_oleans(prop_modules, targets):
    """thorough tier: re-check the compiled property modules with leanchecker (the toolchain's independent replay of
    every declaration through the kernel).  An .olean that an interrupted build left missing is rebuilt once."""
    res = {"ran": True, "failed": [], "log": ""}
    for m in prop_modules:
        mod = "MelModel.Props." + m
        for attempt in range(3):
            rc, out = sh(["lake", "env", "leanchecker", mod], cwd=LEAN, timeout=3000)
            if rc == 0:
                break
            mm = re.search(r"object file '([^']+)\.olean' of module", out)
            if mm and attempt < 2:
                # stale trace without its artefact: drop the trace files of that module and rebuild
                for ext in (".trace", ".olean.hash", ".ilean.hash", ".ilean"):
                    try:
                        os.remove(mm.group(1) + ext)
                    except OSError:
                        pass
                sh(["lake", "build"] + targets, cwd=LEAN, timeout=3000)
                continue
            res["failed"].append(m)
            res["log"] += out[-1500:]
            break
    return res


def build(prop_modules, recheck=False):
    """regenerate tables, build Lean targets and the harness. Returns a report dict."""
    rep = {"tie": None, "lean_ok": False, "lean_log": "", "theorems": {}, "sorry": [], "bad_axioms": [],
           "forbidden": [], "harness_ok": False, "harness_log": "", "failed_modules": []}
    with Lock("build"):
        rc, out = sh([sys.executable, os.path.join(ROOT, "tools", "gen_tables.py")])
        rep["tie"] = out.strip().splitlines()[-1] if out.strip() else ""
        rep["tie_ok"] = rc == 0
        targets = ["driver"] + ["MelModel.Props." + m for m in prop_modules]
        rc, out = sh(["lake", "build"] + targets, cwd=LEAN, timeout=3000)
        rep["lean_log"] = out[-6000:]
        rep["lean_ok"] = rc == 0
        for m in re.finditer(r"'([\w.]+)' depends on axioms: \[([^\]]*)\]", out):
            rep["theorems"][m.group(1)] = [a.strip() for a in m.group(2).split(",") if a.strip()]
        for m in re.finditer(r"'([\w.]+)' does not depend on any axioms", out):
            rep["theorems"][m.group(1)] = []
        for name, axs in rep["theorems"].items():
            bad = [a for a in axs if a not in AXIOM_WHITELIST]
            if bad:
                rep["bad_axioms"].append((name, bad))
        rep["sorry"] = re.findall(r"(MelModel/[\w/]+\.lean:\d+:\d+): declaration uses 'sorry'", out)
        rep["failed_modules"] = re.findall(r"^- (MelModel[\w.]*)", out, flags=re.M)
        rep["lean_errors"] = re.findall(r"error: (MelModel/[\w/]+\.lean:\d+:\d+:[^\n]*)", out)[:10]
        rep["forbidden"] = audit_sources(prop_modules)
        rep["leanchecker"] = {"ran": False, "failed": [], "log": ""}
        if recheck and rep["lean_ok"]:
            rep["leanchecker"] = recheck_oleans(prop_modules, targets)
            for m in rep["leanchecker"]["failed"]:
                rep["failed_modules"].append("MelModel.Props." + m)
            if rep["leanchecker"]["failed"]:
                rep["lean_log"] += "\nleanchecker: " + rep["leanchecker"]["log"]
        rc, out = sh(["cargo", "build", "--offline"], cwd=HARNESS, timeout=3000)
        rep["harness_ok"] = rc == 0
        rep["harness_log"] = out[-4000:]
    return rep


# ------------------------------------------------------------------------------ streams

def run_stream(workdir, stream, seed, count, thorough, env=None, tag=""):
    """runs the harness generator and the model driver; returns dict with paths and stats"""
    os.makedirs(workdir, exist_ok=True)
    d = os.path.join(workdir, stream + tag)
    shutil.rmtree(d, ignore_errors=True)
    os.makedirs(d)
    cmd = [HBIN, "gen", stream, str(seed), str(count), d] + (["thorough"] if thorough else [])
    t0 = time.time()
    hist_log = os.path.join(d, "history.log")
    env2 = dict(env or {})
    env2["VERIF_HISTORY_LOG"] = hist_log
    rc, out = sh(cmd, env=env2, timeout=3000)
    info = {"stream": stream, "dir": d, "rc": rc, "gen_s": round(time.time() - t0, 2), "stats": {}, "lines": 0, "gen_out": out[-2000:]}
    if rc != 0 and os.path.exists(hist_log):
        # the generator process died (an abort in the implementation cannot be caught in-process): the history it was
        # in is the last one logged; replay that history alone to confirm it dies by itself
        try:
            last = open(hist_log).read().strip().split("\n")[-1].split(" ")
            fork_seed = last[1]
            rd = os.path.join(d, "crash-replay")
            os.makedirs(rd, exist_ok=True)
            env3 = dict(env or {})
            env3["VERIF_HISTORY_RNG"] = fork_seed
            env3["VERIF_PANIC_VERBOSE"] = "1"
            rc2, out2 = sh([HBIN, "gen", stream, str(seed), "1", rd] + (["thorough"] if thorough else []), env=env3, timeout=900)
            info["crash"] = {"history_index": last[0], "history_fork_seed": fork_seed, "replays_alone": rc2 != 0, "replay_rc": rc2,
                             "replay_cmd": "VERIF_HISTORY_RNG=%s VERIF_PANIC_VERBOSE=1 %s gen %s %s 1 <dir>%s" % (fork_seed, HBIN, stream, seed, " thorough" if thorough else ""),
                             "replay_output_tail": out2[-1500:]}
        except Exception as ex:
            info["crash"] = {"error": str(ex)}
    for line in out.splitlines():
        line = line.strip()
        if line.startswith("{"):
            try:
                j = json.loads(line)
                if "stats" in j:
                    info["stats"] = j["stats"]
                if "lines" in j:
                    info["lines"] = j["lines"]
                    info["discarded"] = j.get("discarded", 0)
            except Exception:
                pass
    ops = os.path.join(d, stream + ".ops")
    model = os.path.join(d, stream + ".model")
    if rc == 0 and os.path.exists(ops):
        t0 = time.time()
        with open(ops) as fi, open(model, "w") as fo:
            p = subprocess.run([DRIVER], stdin=fi, stdout=fo, stderr=subprocess.PIPE, text=True, timeout=3000)
        info["driver_rc"] = p.returncode
        info["driver_err"] = p.stderr[-1000:]
        info["driver_s"] = round(time.time() - t0, 2)
    else:
        info["driver_rc"] = None
    return info


def load_lines(info):
    d, s = info["dir"], info["stream"]
    rd = lambda ext: open(os.path.join(d, s + ext)).read().split("\n")[:-1] if os.path.exists(os.path.join(d, s + ext)) else []
    return rd(".ops"), rd(".impl"), rd(".model")


# ------------------------------------------------------------------------------ known findings

def load_known():
    p = os.path.join(ROOT, "known_findings.json")
    if not os.path.exists(p):
        return []
    return json.load(open(p))["findings"]


def match_known(prop, viol, known):
    """a violation matches an open finding when every key of its signature matches (regex)"""
    for k in known:
        if k.get("status") != "open":
            continue
        sigs = []
        if prop in k["properties"]:
            sigs += ([k["signature"]] if "signature" in k else []) + k.get("signatures", [])
        if prop in k.get("also_seen_under", {}).get("properties", []):
            # the finding violates other properties; under this one it only shows as a model/implementation divergence
            sigs += k["also_seen_under"]["signatures"]
        if not sigs:
            continue
        for sig in sigs:
            ok = True
            for key, pat in sig.items():
                v = viol.get(key)
                if v is None or not re.search(pat, str(v)):
                    ok = False
                    break
            if ok:
                return k
    return None


# ------------------------------------------------------------------------------ main check

def write_replay(prop, seed, n, payload):
    os.makedirs(REPLAYS, exist_ok=True)
    path = os.path.join(REPLAYS, "%s-%s-%d.json" % (prop, seed, n))
    with open(path, "w") as f:
        json.dump(payload, f, indent=1)
    return path


def run_check(prop, tier):
    t_start = time.time()
    seed = int(os.environ.get("VERIF_SEED", "1"))
    cfg = P.PROPS[prop]
    thorough = tier == "thorough"
    workdir = os.path.join(WORK, prop)
    known = load_known()
    violations = []   # dicts: kind, stream, line, op, impl, model, detail, theorem ...
    notes = []
    rep = build(cfg["modules"], recheck=(tier == "thorough"))
    try:
        changed_sources = SF.changed()
    except Exception:
        changed_sources = []
    if changed_sources:
        notes.append("code of /repo differs from the committed baseline in %s: larger quick sample" % ", ".join(changed_sources))

    # ---- (a) proof obligations
    obligations = []
    for mod in cfg["modules"]:
        src = open(os.path.join(LEAN, "MelModel", "Props", mod + ".lean")).read()
        src_nc = strip_lean_comments(src)
        names = re.findall(r"^\s*theorem\s+([\w.']+)", src_nc, flags=re.M)
        obligations += [(mod, n) for n in names]
    discharged = []
    undischarged = []
    thm_ax = {k.split(".")[-1]: v for k, v in rep["theorems"].items()}
    broken_mods = set(m.split(".")[-1] for m in rep["failed_modules"])
    sorry_files = set(s.split(":")[0] for s in rep["sorry"])
    for mod, n in obligations:
        ok = rep["tie_ok"] and rep["lean_ok"] and mod not in broken_mods and not rep["forbidden"]
        if ok and ("MelModel/Props/%s.lean" % mod) in sorry_files:
            ok = False
        if ok and n in thm_ax and any(a not in AXIOM_WHITELIST for a in thm_ax[n]):
            ok = False
        (discharged if ok else undischarged).append(n)
    proof_broken = bool(undischarged) or not rep["tie_ok"] or not rep["lean_ok"]
    if not rep["harness_ok"]:
        # the implementation no longer builds with the hooks: nothing can be checked
        violations.append({"kind": "harness-build-failed", "detail": rep["harness_log"][-1500:]})

    # ---- (b)+(c) correspondence streams and oracles
    stream_infos = []
    dis_total = 0
    traces = 0
    oracle_fail = 0
    samples = []
    distribution = {}
    if rep["harness_ok"] and os.path.exists(DRIVER):
        runs = []
        # code of /repo changed against the committed baseline: the quick tier spends the idle cores on a larger sample
        # (three times the shards of every state stream, four times the VM cases).  Never an alarm by itself.
        boost = (not thorough) and bool(changed_sources) and os.environ.get("VERIF_NO_BOOST") != "1"
        for s in cfg["streams"]:
            name = s["name"]
            count = s["thorough"] if thorough else s["quick"]
            if boost:
                count = min(s["thorough"], count * (3 if name not in ("codec", "weight", "exec", "feemult", "confirm", "stdcode") else 4))
            runs.append((name, count, None, ""))
            for i, threads in enumerate(s.get("rayon", []) if thorough else s.get("rayon", [])[:2]):
                runs.append((name, max(1, count // 3), {"RAYON_NUM_THREADS": str(threads)}, "-t%s" % threads))
        # the state streams are sharded over the cores (each shard has its own derived seed and directory)
        VMS = ("codec", "weight", "exec", "feemult", "confirm", "stdcode")
        sharded = []
        for (name, count, env, tag) in runs:
            if thorough:
                nsh = SHARDS if (env is None and count >= 4 * SHARDS and name not in VMS) else 1
            else:
                nsh = (QSHARDS * 3 if boost else QSHARDS) if (env is None and count >= 8 * QSHARDS and name not in VMS) else 1
            for k in range(nsh):
                sharded.append((name, max(1, count // nsh), env, tag + ("-s%d" % k if nsh > 1 else ""), seed * 1000 + k if nsh > 1 else seed))
        runs5 = sharded
        import concurrent.futures
        # scripted histories that are expensive for the model (thousands of coins) run in the thorough tier and when the code
        # of /repo differs from the committed baseline
        heavy_env = {"VERIF_HEAVY": "1"} if (thorough or boost) else {}
        with concurrent.futures.ThreadPoolExecutor(max_workers=SHARDS if thorough else 14) as ex:
            futs = [ex.submit(run_stream, workdir, name, sd, count, thorough, dict(env or {}, **heavy_env) or None, tag) for (name, count, env, tag, sd) in runs5]
            infos = [f.result() for f in futs]
        runs = [(n, c, e, t) for (n, c, e, t, _) in runs5]
        for (name, count, env, tag), info in zip(runs, infos):
            stream_infos.append({k: info[k] for k in ("stream", "rc", "lines", "gen_s", "driver_rc") if k in info} | {"tag": tag, "driver_s": info.get("driver_s")})
            if info["rc"] != 0 or info.get("driver_rc") not in (0,):
                v = {"kind": "stream-crashed", "stream": name + tag, "detail": (info.get("gen_out", "") + str(info.get("driver_err", "")))[-1500:]}
                if info.get("crash"):
                    v.update(info["crash"])
                if info.get("crash", {}).get("replays_alone"):
                    # a concrete failing input: this one generated history kills the process running the real code
                    v["kind"] = "implementation-aborts"
                violations.append(v)
                continue
            ops, impl, model = load_lines(info)
            traces += len(ops)
            for k, v in info["stats"].items():
                distribution[name + tag + ":" + k] = v
            proj = O.PROJECTIONS[cfg["projection"]]
            first = None
            for i, (o, a, b) in enumerate(zip(ops, impl, model)):
                if a == b:
                    continue
                pa, pb = proj(o, a), proj(o, b)
                if pa != pb:
                    dis_total += 1
                    if first is None or len(violations) < 40:
                        first = i
                        violations.append({"kind": "model-vs-impl", "stream": name + tag, "line": i, "op": o[:4000], "impl": str(pa)[:3000], "model": str(pb)[:3000],
                                           "opkind": o.split(" ")[0], "impl_status": a.split(" ")[0], "model_status": b.split(" ")[0],
                                           "pow_panics": "yes" if re.search(r"p:[0-9a-f]+:[0-9a-f]+:\d+:\d+:[0-9a-f]+:panics", o) else "no",
                                           "grandfathered_tx": "yes" if re.search(r"(^|[ ,])g:[0-9a-f]{64}", o) else "no"})
            if len(model) != len(impl):
                violations.append({"kind": "model-vs-impl", "stream": name + tag, "line": min(len(model), len(impl)), "op": "(stream length)", "impl": len(impl), "model": len(model), "opkind": "length"})
            # direct oracles on the implementation's results
            for oname in cfg.get("oracles", []):
                for v in O.ORACLES[oname](ops, impl, model):
                    oracle_fail += 1
                    v.update({"kind": "oracle:" + oname, "stream": name + tag})
                    violations.append(v)
            # harness-side facts (oracles that need extra executions of the real code)
            facts_path = os.path.join(info["dir"], name + ".facts")
            if os.path.exists(facts_path):
                for line in open(facts_path):
                    try:
                        j = json.loads(line)
                    except Exception:
                        continue
                    if j.get("prop") == prop and not j.get("ok", True):
                        oracle_fail += 1
                        ln = j.get("line")
                        if isinstance(ln, int) and 0 <= ln < len(ops):
                            j["pow_panics"] = "yes" if re.search(r"p:[0-9a-f]+:[0-9a-f]+:\d+:\d+:[0-9a-f]+:panics", ops[ln]) else "no"
                            j["opkind"] = ops[ln].split(" ")[0]
                            j["grandfathered_tx"] = "yes" if re.search(r"(^|[ ,])g:[0-9a-f]{64}", ops[ln]) else "no"
                        j.update({"kind": "oracle:fact:" + j.get("check", ""), "stream": name + tag})
                        violations.append(j)
            if len(samples) < 4 and ops:
                k = min(len(ops) - 1, 3 + len(samples) * 7)
                samples.append({"stream": name + tag, "op": ops[k][:600], "impl": impl[k][:300] if k < len(impl) else None})
        # deterministic across rayon pool sizes: same seed => same verdicts and same states (the error variant reported
        # for a batch with several invalid transactions may legitimately differ)
        if cfg.get("compare_rayon"):
            norm = lambda l: "err" if l.startswith("err ") else l
            groups = {}
            for (name, count, env, tag) in runs:
                if env is None:
                    continue
                pth = os.path.join(workdir, name + tag, name + ".impl")
                if os.path.exists(pth):
                    groups.setdefault((name, count), []).append((tag, [norm(l) for l in open(pth).read().split("\n")]))
            for key, lst in groups.items():
                base_tag, base = lst[0]
                for tag, lines in lst[1:]:
                    if lines != base:
                        k = next((i for i, (x, y) in enumerate(zip(base, lines)) if x != y), min(len(base), len(lines)))
                        oracle_fail += 1
                        violations.append({"kind": "oracle:rayon-nondeterminism", "stream": key[0], "line": k,
                                           "detail": "same seed, RAYON_NUM_THREADS%s vs %s: results differ at line %d: %s | %s" % (base_tag, tag, k, base[k][:200] if k < len(base) else "", lines[k][:200] if k < len(lines) else "")})

    # ---- probes: the minimal witnesses of every finding recorded for this property (one process each)
    probe_results = {}
    if rep["harness_ok"]:
        for k in known:
            if prop not in k["properties"] or not k.get("probe"):
                continue
            pid = k["probe"]
            try:
                p = subprocess.run([HBIN, "probe", pid], stdout=subprocess.PIPE, stderr=subprocess.STDOUT, text=True, timeout=900)
                out, rc = p.stdout, p.returncode
            except subprocess.TimeoutExpired:
                out, rc = "", -999
            m = re.search(r"^PROBE %s (violates|holds) ?(.*)$" % re.escape(pid), out, flags=re.M)
            if m:
                verdict, detail = m.group(1), m.group(2)
            elif rc != 0:
                verdict, detail = "violates", "process died (rc=%s): %s" % (rc, out.strip().splitlines()[-1][:200] if out.strip() else "")
            else:
                verdict, detail = "unknown", out[-200:]
            probe_results[pid] = {"verdict": verdict, "detail": detail[:400], "status": k["status"]}
            if verdict == "violates":
                violations.append({"kind": "probe", "probe": pid, "op": "probe " + pid, "detail": "%s: %s" % (pid, detail[:600]), "legacy": "probe", "liq_tokens_in_play": "n/a", "model_status": "n/a", "opkind": "n/a",
                                   "finding_status": k["status"]})
            elif k["status"] == "open":
                notes.append("open finding %s no longer reproduces: %s" % (pid, detail[:200]))

    # ---- proof break: name the theorem(s) and say whether a failing input was found
    found_input = any(v["kind"].startswith("oracle") or v["kind"] in ("model-vs-impl", "probe") for v in violations)
    if proof_broken:
        v = {"kind": "proof-obligation-broken", "theorems": undischarged[:30], "tie": rep["tie"], "lean_errors": rep.get("lean_errors", []),
             "sorry": rep["sorry"][:10], "bad_axioms": rep["bad_axioms"][:10], "forbidden": rep["forbidden"][:10],
             "lean_log_tail": rep["lean_log"][-1500:]}
        violations.append(v)

    # ---- classify against known findings, print, write evidence
    out_lines = []
    exit_code = 0
    n_rep = 0
    known_hit = {}
    real = []
    for v in violations:
        k = match_known(prop, v, known)
        if k:
            known_hit.setdefault(k["id"], {"finding": k, "count": 0})["count"] += 1
        else:
            real.append(v)
    for kid, kv in known_hit.items():
        out_lines.append("KNOWN-FINDING: property=%s %s (%s; %d occurrence(s) this run)" % (prop, kid, kv["finding"]["description"], kv["count"]))
    # always announce open findings listed for this property, with their probe status
    if real:
        exit_code = 1
        # group: one replay file per violation kind (first few)
        has_input = any(v["kind"].startswith("oracle") or v["kind"] in ("model-vs-impl", "probe", "implementation-aborts") for v in real)
        # the violations that come with a concrete input are listed first, so that the replay files shown are the useful ones
        real.sort(key=lambda v: 0 if (v["kind"].startswith("oracle") or v["kind"] in ("probe", "implementation-aborts") or (v["kind"] == "model-vs-impl" and (v.get("impl_status") in ("panic", "abort", "timeout") or (cfg.get("verdict_is_spec") and v.get("impl_status") != v.get("model_status"))))) else (1 if v["kind"] == "model-vs-impl" else 2))
        shown = 0
        for v in real:
            if shown >= 5:
                break
            n_rep += 1
            shown += 1
            payload = {"property": prop, "seed": seed, "tier": tier, "violation": v,
                       "how_to_replay": "python3 tools/check.py replay <this file>"}
            path = write_replay(prop, seed, n_rep, payload)
            suffix = ""
            if v["kind"] in ("proof-obligation-broken", "harness-build-failed", "stream-crashed") and not has_input:
                suffix = " no-failing-input-found"
            elif v["kind"] == "model-vs-impl" and v.get("impl_status") in ("panic", "abort", "timeout") and v.get("model_status") not in ("panic", "abort", "timeout"):
                # the implementation crashes on this input where the proved-total model returns a result: a concrete failing input
                suffix = ""
            elif v["kind"] == "model-vs-impl" and cfg.get("verdict_is_spec") and v.get("impl_status") != v.get("model_status") and {v.get("impl_status"), v.get("model_status")} <= {"ok", "err", "some", "none"}:
                # the implementation accepts what the model rejects, or rejects what it accepts: a concrete failing input
                suffix = ""
            elif v["kind"] == "model-vs-impl" and not cfg.get("model_is_spec") and not any(x["kind"].startswith("oracle") or x["kind"] == "probe" for x in real):
                # correspondence broke, the direct oracle saw no property failure on the explored inputs
                suffix = " no-failing-input-found"
            out_lines.append("VIOLATION property=%s replay=%s%s" % (prop, path, suffix))
    wall = round(time.time() - t_start, 2)
    evidence = {
        "property_id": prop,
        "tier": tier,
        "seed": seed,
        # when some obligation is not discharged on this run the claim is downgraded (the run then reports a violation)
        "level": "proof" if (discharged and not undischarged) else "other",
        "coverage": {
            "explanation": ("all %d proof obligations discharged" % len(obligations)) if not undischarged else
                           ("%d of %d proof obligations NOT discharged on this run (broken tie, build failure or audit failure): %s" % (len(undischarged), len(obligations), undischarged[:10])),
            "obligations": len(obligations),
            "discharged": len(discharged),
            "checker_cmd": "python3 tools/gen_tables.py && (cd lean && lake build driver " + " ".join("MelModel.Props." + m for m in cfg["modules"]) + ")" +
                           ((" && (cd lean && " + " && ".join("lake env leanchecker MelModel.Props." + m for m in cfg["modules"]) + ")") if thorough else ""),
            "leanchecker": ("re-checked %d compiled module(s) with leanchecker: %s" % (len(cfg["modules"]), "all accepted" if not rep["leanchecker"]["failed"] else ("REJECTED " + ",".join(rep["leanchecker"]["failed"])))) if rep.get("leanchecker", {}).get("ran") else "not run in this tier",
            "trusted_base": P.TRUSTED_BASE + cfg.get("trusted_extra", []),
            "theorems": [n for _, n in obligations],
            "undischarged": undischarged,
            "axioms_used": sorted(set(a for n in discharged for a in thm_ax.get(n, []))),
            "generated_tables": rep["tie"][:400],
            "traces_validated_against_impl": traces,
            "model_vs_impl_disagreements": dis_total,
            "impl_vs_oracle_failures": oracle_fail,
            "known_findings_hit": {k: v["count"] for k, v in known_hit.items()},
            "probes": probe_results,
            "notes": notes,
            "streams": stream_infos,
            "input_distribution": O.summarize_distribution(distribution),
            "samples": samples if samples else [{"obligation": n} for _, n in obligations[:3]],
            "projection": cfg["projection"],
            "oracles": cfg.get("oracles", []),
        },
        "assumptions": cfg.get("assumptions", []) + P.COMMON_ASSUMPTIONS,
        "wall_s": wall,
        "violations": len(real),
    }
    os.makedirs(EVID, exist_ok=True)
    with open(os.path.join(EVID, prop + ".json"), "w") as f:
        json.dump(evidence, f, indent=1)
    for l in out_lines:
        print(l)
    print("%s %s: obligations %d/%d, traces %d, disagreements %d, oracle failures %d, known findings %d, %.1fs -> %s" % (
        prop, tier, len(discharged), len(obligations), traces, dis_total, oracle_fail, len(known_hit), wall, "FAIL" if exit_code else "ok"))
    return exit_code


def replay(path):
    j = json.load(open(path))
    v = j["violation"]
    print(json.dumps(v, indent=1)[:6000])
    if v.get("op") and v["kind"] in ("model-vs-impl",) or v["kind"].startswith("oracle"):
        # re-run the model on the recorded operation prefix is not possible for state ops in isolation;
        # re-run the whole check with the recorded seed instead
        print("re-running property %s with seed %s (tier %s)" % (j["property"], j["seed"], j["tier"]))
        os.environ["VERIF_SEED"] = str(j["seed"])
        return run_check(j["property"], j["tier"])
    return 0


def main():
    if len(sys.argv) < 2:
        print(__doc__)
        return 2
    cmd = sys.argv[1]
    if cmd == "setup":
        rep = build(sorted(set(m for c in P.PROPS.values() for m in c["modules"])))
        ok = rep["tie_ok"] and rep["lean_ok"] and rep["harness_ok"]
        print(json.dumps({k: rep[k] for k in ("tie_ok", "lean_ok", "harness_ok", "sorry", "bad_axioms", "forbidden", "failed_modules")}, indent=1))
        if not ok:
            print(rep["lean_log"][-3000:])
            print(rep["harness_log"][-3000:])
        return 0 if ok else 1
    if cmd == "run":
        prop = sys.argv[2]
        tier = sys.argv[3] if len(sys.argv) > 3 else os.environ.get("VERIF_TIER", "quick")
        if tier not in ("quick", "thorough"):
            tier = "quick"
        return run_check(prop, tier)
    if cmd == "replay":
        return replay(sys.argv[2])
    print(__doc__)
    return 2


if __name__ == "__main__":
    sys.exit(main())
