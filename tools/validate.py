#!/usr/bin/env python3
import json,sys,glob
import jsonschema
m=json.load(open('/verif/MANIFEST.json'))
jsonschema.validate(m,json.load(open('/root/.vp/MANIFEST.schema.json')))
es=json.load(open('/root/.vp/EVIDENCE.schema.json'))
for f in sorted(glob.glob('/verif/evidence/C*.json')):
    jsonschema.validate(json.load(open(f)),es)
    print('ok',f)
print('manifest ok', len(m['checks']),'checks')
