#!/usr/bin/env python3
"""writes MANIFEST.json from tools/props.py and tools/manifest_text.py"""
import json, os, sys, subprocess
sys.path.insert(0, os.path.dirname(os.path.abspath(__file__)))
import props as P
import manifest_text as T

def hook_commits():
    out = subprocess.run(["git", "-C", "/repo", "log", "--format=%H %s"], stdout=subprocess.PIPE, text=True).stdout
    return [l.split(" ")[0] for l in out.splitlines() if " verif hooks:" in " " + l]

checks = []
for pid in sorted(P.PROPS):
    t = T.TEXT[pid]
    checks.append({
        "property_id": pid,
        "quick_cmd": "python3 tools/check.py run %s quick" % pid,
        "thorough_cmd": "python3 tools/check.py run %s thorough" % pid,
        "evidence_file": "/verif/evidence/%s.json" % pid,
        "replay_cmd_template": "python3 tools/check.py replay {path}",
        "engine": "lean4-model+correspondence",
        "level_claimed": {"category": "proof", "text": t["level"], "design_ref": t["design_ref"]},
        "level_note": t["note"],
        "technique": t["technique"],
    })
m = {
    "version": 1,
    "setup_cmd": "python3 tools/check.py setup",
    "hooks": {
        "guard": "melstf_verif",
        "enable": "RUSTFLAGS=\"--cfg melstf_verif\" (set in /verif/harness/.cargo/config.toml; the harness crate has path dependencies on /repo, so every check rebuilds the current working tree with the hooks on)",
        "baseline_off_cmd": "cd /repo && cargo test --workspace --no-fail-fast --offline",
        "source_commits": hook_commits(),
        "add_only": True,
    },
    "engines": [{
        "name": "lean4-model+correspondence",
        "path": "/verif/lean, /verif/harness, /verif/tools",
        "serves_properties": sorted(P.PROPS),
        "kind_free_text": "Lean 4 model of the STF with machine-checked theorems per property (lake project lean/, no Mathlib in model files); tables regenerated from /repo source on every run; Rust harness drives the real code and a compiled Lean driver runs the model on the same operation lines; projections of both outputs are diffed and direct oracles evaluate the property on the real results",
    }],
    "checks": checks,
    "notes": T.NOTES,
    "not_applicable": [{"property_id": k, "reason": v} for k, v in sorted(T.NOT_YET.items()) if k not in P.PROPS],
}
json.dump(m, open(os.path.join(os.path.dirname(os.path.abspath(__file__)), "..", "MANIFEST.json"), "w"), indent=1)
print("wrote MANIFEST.json with", len(checks), "checks;", len(m["not_applicable"]), "not claimed")
