#!/bin/bash
# Line coverage of /repo's source by the quick-tier generators (auxiliary: shows which branches of the implementation the
# correspondence streams never reach).  Needs the nightly toolchain's llvm-tools; everything goes to $1 (default /tmp/melcov)
# and nothing registered in MANIFEST.json depends on it.
set -u
D=${1:-/tmp/melcov}; T=$(dirname $(find ~/.rustup/toolchains/nightly-*/lib/rustlib -name llvm-profdata | head -1))
mkdir -p $D/prof $D/out
cd /verif/harness
CARGO_NET_OFFLINE=true RUSTFLAGS="--cfg melstf_verif -Aunexpected_cfgs -C instrument-coverage" cargo +nightly build --target-dir $D/target 2>&1 | tail -1
find /repo /verif -name "*.profraw" -delete      # instrumented build scripts drop these into the package directories
B=$D/target/debug/melstf-verif-harness
for st in "apply 120" "seal 180" "chain 120" "mint 180" "hostile 210" "cov 150" "stake 180" "faucet 180" "activation 90" "merkle 40" "confirm 60" "exec 2500" "codec 1500" "weight 400" "feemult 300"; do
  set -- $st
  LLVM_PROFILE_FILE=$D/prof/$1-%p.profraw $B gen $1 ${VERIF_SEED:-1} $2 $D/out/$1 > /dev/null 2>&1 &
done
wait
$T/llvm-profdata merge -sparse $D/prof/*.profraw -o $D/all.profdata
SRC=$(find /repo/src /repo/lib -name "*.rs" | grep -v "bin/\|fuzz\|testing\|verif_hooks")
$T/llvm-cov report $B -instr-profile=$D/all.profdata $SRC | cut -c1-40,100-200
for f in src/state.rs src/state/applytx.rs src/state/melmint.rs src/state/coins.rs lib/melvm/src/executor.rs lib/melvm/src/opcode.rs lib/tip911-stakeset/src/lib.rs; do
  echo "=== not executed in $f"
  $T/llvm-cov show $B -instr-profile=$D/all.profdata /repo/$f | awk -F'|' '$2 ~ /^ *0$/ {print $1"|"$3}' | cut -c1-140
done
