#!/usr/bin/env python3
"""Translator: table-like parts of /repo's current working tree -> Lean.

Re-run before every `lake build`.  It extracts, by regular expressions over the
*current* source text,

  * the opcode byte values                     (lib/melvm/src/consts.rs)
  * the heap-address constants                 (lib/melvm/src/consts.rs)
  * the encode arms  OpCode::X  -> OPCODE_Y    (lib/melvm/src/opcode.rs, fn encode)
  * the decode arms  OPCODE_Y   -> OpCode::X   (lib/melvm/src/opcode.rs, fn decode)
  * the per-opcode weight arms                 (lib/melvm/src/opcode.rs, opcodes_car_weight)
  * the TIP activation heights                 (src/tip_heights.rs)
  * the legacy-rule thresholds, the grandfathered faucet hash and the numeric
    constants of the fee / reward / subsidy arithmetic (src/state.rs,
    src/state/applytx.rs, src/state/melmint.rs)

and writes MelModel/Generated/Tables.lean.  If the source no longer has the shape
the extractor understands it exits non-zero with a message naming what it could not
find: that is a *broken tie* and is handled by tools/check.py like a broken
correspondence (search for a failing input, else `no-failing-input-found`).
"""
import re
import sys
import os
import json

REPO = os.environ.get("VERIF_REPO", "/repo")
OUT = os.path.join(os.path.dirname(os.path.abspath(__file__)), "..", "lean", "MelModel", "Generated", "Tables.lean")


class TieBroken(Exception):
    pass


def read(rel):
    with open(os.path.join(REPO, rel)) as f:
        return f.read()


def strip_comments(s):
    s = re.sub(r"/\*.*?\*/", "", s, flags=re.S)
    s = re.sub(r"//[^\n]*", "", s)
    return s


def need(m, what):
    if not m:
        raise TieBroken("cannot find " + what)
    return m


def fn_body(src, header_re, what):
    """text of the brace-balanced body following the first match of header_re"""
    m = need(re.search(header_re, src), what)
    i = src.index("{", m.end() - 1) if src[m.end() - 1] != "{" else m.end() - 1
    depth = 0
    for j in range(i, len(src)):
        if src[j] == "{":
            depth += 1
        elif src[j] == "}":
            depth -= 1
            if depth == 0:
                return src[i + 1:j]
    raise TieBroken("unbalanced braces in " + what)


def snake(name):
    return name


# names of opcodes in the Lean model (constructor names), keyed by Rust variant
VARIANTS = [
    "Noop", "Add", "Sub", "Mul", "Div", "Rem", "Exp", "And", "Or", "Xor", "Not", "Eql", "Lt", "Gt",
    "Shl", "Shr", "Hash", "SigEOk", "Store", "Load", "StoreImm", "LoadImm", "VRef", "VAppend",
    "VEmpty", "VLength", "VSlice", "VSet", "VPush", "VCons", "BRef", "BAppend", "BEmpty", "BLength",
    "BSlice", "BSet", "BPush", "BCons", "Bez", "Bnz", "Jmp", "Loop", "ItoB", "BtoI", "TypeQ",
    "PushB", "PushI", "PushIC", "Dup",
]



def threshold(body, lhs, what):
    """exclusive upper bound N of a test `lhs < N` (also accepted: `lhs <= N-1`, `N > lhs`, `N-1 >= lhs`, digits with _)"""
    num = r"([\d_]+)(?:u64|u128)?"
    for pat, adj in ((lhs + r"\s*<\s*" + num, 0), (lhs + r"\s*<=\s*" + num, 1), (num + r"\s*>\s*" + lhs, 0), (num + r"\s*>=\s*" + lhs, 1)):
        m = re.search(pat, body)
        if m:
            return int(m.group(1).replace("_", "")) + adj
    raise TieBroken(what)


def main():
    out = []
    info = {}
    consts = strip_comments(read("lib/melvm/src/consts.rs"))
    opcode = strip_comments(read("lib/melvm/src/opcode.rs"))
    # cut the test module away
    cut = opcode.find("#[cfg(test)]")
    if cut > 0:
        opcode = opcode[:cut]

    # ---- opcode bytes ---------------------------------------------------------
    opbytes = {}
    for m in re.finditer(r"(#\[cfg\(feature\s*=\s*\"print\"\)\]\s*)?pub\(crate\)\s+const\s+(OPCODE_\w+)\s*:\s*u8\s*=\s*(0x[0-9a-fA-F]+|\d+)\s*;", consts):
        if m.group(1):
            continue  # the `print` feature is off in the STF build
        opbytes[m.group(2)] = int(m.group(3), 0)
    if len(opbytes) < 40:
        raise TieBroken("opcode byte constants in consts.rs (found %d)" % len(opbytes))
    haddr = {}
    for m in re.finditer(r"pub\s+const\s+(HADDR_\w+)\s*:\s*u16\s*=\s*(\d+)\s*;", consts):
        haddr[m.group(1)] = int(m.group(2))
    for k in ["HADDR_SPENDER_TX", "HADDR_SPENDER_TXHASH", "HADDR_PARENT_TXHASH", "HADDR_PARENT_INDEX",
              "HADDR_SELF_HASH", "HADDR_PARENT_VALUE", "HADDR_PARENT_DENOM", "HADDR_PARENT_ADDITIONAL_DATA",
              "HADDR_PARENT_HEIGHT", "HADDR_SPENDER_INDEX", "HADDR_LAST_HEADER"]:
        if k not in haddr:
            raise TieBroken("heap address constant " + k)

    # ---- encode arms ----------------------------------------------------------
    enc_body = fn_body(opcode, r"pub\s+fn\s+encode\s*\(", "fn encode")
    enc = {}
    # split into arms at "OpCode::X" at arm starts
    for m in re.finditer(r"OpCode::(\w+)(?:\([^)]*\))?\s*=>\s*(.*?)(?=(?:#\[cfg[^\]]*\]\s*)?OpCode::\w+(?:\([^)]*\))?\s*=>|\Z)", enc_body, flags=re.S):
        var, text = m.group(1), m.group(2)
        if var == "Print":
            continue
        first = re.search(r"write_all\(&\[(OPCODE_\w+)\]\)", text)
        if not first:
            raise TieBroken("encode arm of OpCode::%s writes no opcode byte" % var)
        enc[var] = first.group(1)
    # ---- decode arms ----------------------------------------------------------
    dec_body = fn_body(opcode, r"pub\s+fn\s+decode\s*<", "fn decode")
    dec = {}
    for m in re.finditer(r"(OPCODE_\w+)\s*=>\s*(.*?)(?=(?:#\[cfg[^\]]*\]\s*)?OPCODE_\w+\s*=>|\bb\s*=>|\Z)", dec_body, flags=re.S):
        const, text = m.group(1), m.group(2)
        if const == "OPCODE_PRINT":
            continue
        v = re.search(r"OpCode::(\w+)", text)
        if not v:
            raise TieBroken("decode arm of %s names no OpCode" % const)
        dec[const] = v.group(1)

    for v in VARIANTS:
        if v not in enc:
            raise TieBroken("encode arm for OpCode::" + v)
    for v in enc:
        if v not in VARIANTS:
            raise TieBroken("unknown opcode variant OpCode::%s (model has no such instruction)" % v)
        if enc[v] not in opbytes:
            raise TieBroken("constant %s used by encode" % enc[v])
    for c, v in dec.items():
        if v not in VARIANTS:
            raise TieBroken("decode arm %s -> unknown OpCode::%s" % (c, v))
        if c not in opbytes:
            raise TieBroken("constant %s used by decode" % c)

    # ---- weights ----------------------------------------------------------------
    w_body = fn_body(opcode, r"fn\s+opcodes_car_weight\s*\(", "fn opcodes_car_weight")
    weights = {}
    special = {}
    for m in re.finditer(r"OpCode::(\w+)(\([^)]*\))?\s*=>\s*(.*?)(?=(?:#\[cfg[^\]]*\]\s*)?OpCode::\w+(?:\([^)]*\))?\s*=>|\Z)", w_body, flags=re.S):
        var, args, text = m.group(1), m.group(2), " ".join(m.group(3).split())
        while text.count("}") > text.count("{") and text.endswith("}"):
            text = text[:-1].rstrip()
        if var == "Print":
            continue
        simple = re.fullmatch(r"\((\d+), rest\),?", text)
        if simple:
            weights[var] = int(simple.group(1))
        else:
            special[var] = text
    # the four non-constant arms must have exactly the shape the model mirrors
    pats = {
        "Exp": r"\( (\d+)u128\.saturating_add\((\d+)u128\.saturating_mul\(\*k as u128 \+ 1\)\), rest, \),?",
        "Hash": r"\((\d+)u128\.saturating_add\(\*n as u128\), rest\),?",
        "SigEOk": r"\((\d+)u128\.saturating_add\(\*n as u128\), rest\),?",
        "Loop": r"\{ let sum = opcodes_weight\(&rest\[\.\.\(\*body_len as usize\)\.min\(rest\.len\(\)\)\]\); \(sum\.saturating_mul\(\*iters as u128\)\.saturating_add\((\d+)\), rest\) \}",
    }
    sp = {}
    for var, pat in pats.items():
        if var not in special:
            raise TieBroken("weight arm of OpCode::%s is not of the expected non-constant shape" % var)
        mm = re.fullmatch(pat, special[var])
        if not mm:
            raise TieBroken("weight arm of OpCode::%s has changed shape: %r" % (var, special[var]))
        sp[var] = [int(x) for x in mm.groups()]
    for var in special:
        if var not in pats:
            raise TieBroken("weight arm of OpCode::%s is not a constant: %r" % (var, special[var]))
    for v in VARIANTS:
        if v not in weights and v not in pats:
            raise TieBroken("weight arm for OpCode::" + v)
    # outer driver: saturating sum
    ow = " ".join(fn_body(opcode, r"pub\s+fn\s+opcodes_weight\s*\(", "fn opcodes_weight").split())
    # the weigher since the `fix:` for F2: one right-to-left pass per distinct end; the three expressions that carry the
    # arithmetic (a plain instruction's own weight, a loop's weight from its body, the saturating accumulation) must be
    # exactly these, with the same loop constant as the car-weight arm
    need_in = ["opcodes_car_weight(&opcodes[j..j + 1]).0",
               "suffix.saturating_mul(*iters as u128).saturating_add(%d)" % sp["Loop"][0],
               "suffix = suffix.saturating_add(car);",
               "(j + 1 + body_len as usize).min(n)",
               "ends.sort_unstable();"]
    for frag in need_in:
        if frag not in ow:
            raise TieBroken("opcodes_weight no longer has the shape the model mirrors (missing %r)" % frag)

    # ---- TIP heights ----------------------------------------------------------
    tips_src = strip_comments(read("src/tip_heights.rs"))
    tips = {}
    for m in re.finditer(r"pub\s+const\s+(TIP_\w+_HEIGHT)\s*:\s*BlockHeight\s*=\s*BlockHeight\(([^)]+)\)\s*;", tips_src):
        val = m.group(2).strip()
        tips[m.group(1)] = (2 ** 64 - 1) if val == "u64::MAX" else int(val.replace("_", ""))
    for k in ["TIP_901_HEIGHT", "TIP_902_HEIGHT", "TIP_906_HEIGHT", "TIP_908_HEIGHT", "TIP_909_HEIGHT", "TIP_909A_HEIGHT"]:
        if k not in tips:
            raise TieBroken(k)

    # ---- scattered constants -------------------------------------------------
    applytx = strip_comments(read("src/state/applytx.rs"))
    melmint = strip_comments(read("src/state/melmint.rs"))
    state = strip_comments(read("src/state.rs"))
    misc = {}
    misc["FAUCET_HASH"] = need(re.search(r"INFLATION_BUG_TX_HASH\s*:\s*&str\s*=\s*\"([0-9a-f]{64})\"", applytx), "INFLATION_BUG_TX_HASH").group(1)
    body = fn_body(applytx, r"fn\s+load_stake_info\s*<", "fn load_stake_info")
    misc["LEGACY_STAKE_REG_HEIGHT"] = threshold(body, r"this\.height\.0", "legacy stake registration height")
    body = fn_body(applytx, r"fn\s+check_tx_validity\s*<", "fn check_tx_validity")
    misc["LEGACY_STAKE_LOCK_HEIGHT"] = threshold(body, r"this\.height\.0", "legacy stake lock height")
    body = fn_body(applytx, r"fn\s+validate_and_get_doscmint_speed\s*<", "fn validate_and_get_doscmint_speed")
    misc["DOSCMINT_MIN_AGE"] = int(need(re.search(r"\(this\.height\s*-\s*coin_data\.height\)\.0\s*<\s*(\d+)\s*&&\s*this\.network\s*==\s*NetID::Mainnet", body), "doscmint minimum age").group(1))
    body = fn_body(applytx, r"fn\s+compute_doscmint_speed\s*\(", "fn compute_doscmint_speed")
    misc["TIP910_SPEED_FACTOR"] = int(need(re.search(r"if\s+is_tip910\s*\{\s*(\d+)\s*\}\s*else\s*\{\s*1\s*\}", body), "tip910 speed factor").group(1))
    body = fn_body(melmint, r"fn\s+process_deposits_for_single_pool\s*<", "fn process_deposits_for_single_pool")
    misc["LEGACY_DEPOSIT_HEIGHT"] = threshold(body, r"state\.height\.0", "legacy deposit height")
    body = fn_body(melmint, r"fn\s+process_pegging\s*<", "fn process_pegging")
    mm = need(re.search(r"let\s+throttler\s*=\s*if\s+state\.tip_902\(\)\s*\{\s*(\d+)\s*\}\s*else\s*\{\s*(\d+)\s*\}", body), "pegging throttler")
    misc["THROTTLER_902"], misc["THROTTLER_PRE"] = int(mm.group(1)), int(mm.group(2))
    body = fn_body(melmint, r"pub\s+fn\s+calculate_reward\s*\(", "fn calculate_reward")
    misc["REWARD_DIVISOR"] = int(need(re.search(r"BigInt::from\((\d+)\)\s*\)", body), "reward divisor 2880").group(1))
    misc["TIP910_WORK_FACTOR"] = int(need(re.search(r"saturating_mul\((\d+)\)", body), "tip910 work factor").group(1))
    body = fn_body(melmint, r"fn\s+microergs_per_dosc\s*\(", "fn microergs_per_dosc")
    misc["INFLATOR_DIV"] = int(need(re.search(r"last\s*/\s*([\d_]+)", body), "inflator divisor").group(1).replace("_", ""))
    body = fn_body(melmint, r"fn\s+create_builtins\s*<", "fn create_builtins")
    misc["BUILTIN_LIQ_MULT"] = int(need(re.search(r"def\.deposit\(MICRO_CONVERTER\s*\*\s*(\d+),\s*MICRO_CONVERTER\s*\*\s*(\d+)\)", body), "builtin pool initial liquidity").group(1))
    body = fn_body(state, r"fn\s+move_action_fee_multiplier\s*\(", "fn move_action_fee_multiplier")
    misc["FEEMULT_SHIFT"] = int(need(re.search(r"self\.fee_multiplier\s*>>\s*(\d+)", body), "fee multiplier shift").group(1))
    misc["FEEMULT_FLOOR"] = int(need(re.search(r"\.max\((\d+)\)", body), "fee multiplier floor").group(1))
    misc["FEEMULT_DIV"] = int(need(re.search(r"/\s*(\d+)\s*;", body), "fee multiplier divisor").group(1))
    body = fn_body(state, r"fn\s+collect_proposer_action_fee\s*\(", "fn collect_proposer_action_fee")
    misc["REWARD_SHIFT"] = int(need(re.search(r"self\.fee_pool\.0\s*>>\s*(\d+)", body), "proposer reward shift").group(1))
    body = fn_body(state, r"fn\s+apply_tip_909\s*\(", "fn apply_tip_909")
    mm = need(re.search(r"\(1u128\s*<<\s*(\d+)\)\s*>>\s*divider", body), "tip909 subsidy")
    misc["SUBSIDY_LOG2"] = int(mm.group(1))
    misc["SUBSIDY_HALVING"] = int(need(re.search(r"/\s*([\d_]+)\s*;", body), "tip909 halving interval").group(1).replace("_", ""))
    misc["SUBSIDY_ERG_SHIFT"] = int(need(re.search(r"reward\s*>>\s*(\d+)", body), "tip909a erg shift").group(1))
    body = fn_body(state, r"fn\s+tip_condition\s*\(", "fn tip_condition")
    misc["TESTNET_TIP_HEIGHT"] = int(need(re.search(r"BlockHeight\((\d+)\)", body), "testnet tip height").group(1))

    # ---- emit -------------------------------------------------------------------
    L = out.append
    L("/- GENERATED by tools/gen_tables.py from /repo's working tree. Do not edit. -/")
    L("namespace Mel.Gen")
    L("")
    L("/-! opcode byte values (lib/melvm/src/consts.rs) -/")
    for k in sorted(opbytes, key=lambda k: opbytes[k]):
        L("def %s : UInt8 := %d" % (k, opbytes[k]))
    L("")
    L("/-! encode arms: which constant `OpCode::X` writes (lib/melvm/src/opcode.rs, fn encode) -/")
    for v in VARIANTS:
        L("def enc%s : UInt8 := %s" % (v, enc[v]))
    L("")
    L("/-! decode arms: which opcode each constant decodes to, as (byte, variant name) -/")
    L("def decodeArms : List (UInt8 × String) := [")
    items = sorted(dec.items(), key=lambda kv: opbytes[kv[0]])
    L(",\n".join("  (%s, \"%s\")" % (c, v) for c, v in items))
    L("]")
    for v in VARIANTS:
        cs = [c for c, vv in dec.items() if vv == v]
        if len(cs) != 1:
            raise TieBroken("OpCode::%s is produced by %d decode arms" % (v, len(cs)))
        L("def dec%s : UInt8 := %s" % (v, cs[0]))
    L("")
    L("/-! heap addresses -/")
    for k, v in sorted(haddr.items(), key=lambda kv: kv[1]):
        L("def %s : Nat := %d" % (k, v))
    L("")
    L("/-! constant weight arms of `opcodes_car_weight` -/")
    for v in VARIANTS:
        if v in weights:
            L("def w%s : Nat := %d" % (v, weights[v]))
    L("def wExpBase : Nat := %d" % sp["Exp"][0])
    L("def wExpPerBit : Nat := %d" % sp["Exp"][1])
    L("def wHashBase : Nat := %d" % sp["Hash"][0])
    L("def wSigEOkBase : Nat := %d" % sp["SigEOk"][0])
    L("def wLoopExtra : Nat := %d" % sp["Loop"][0])
    L("")
    L("/-! TIP activation heights (src/tip_heights.rs) -/")
    for k, v in tips.items():
        L("def %s : Nat := %d" % (k, v))
    L("")
    L("/-! scattered constants -/")
    for k, v in misc.items():
        if isinstance(v, int):
            L("def %s : Nat := %d" % (k, v))
        else:
            L("def %s : String := \"%s\"" % (k, v))
    L("")
    L("end Mel.Gen")
    text = "\n".join(out) + "\n"
    os.makedirs(os.path.dirname(OUT), exist_ok=True)
    old = None
    if os.path.exists(OUT):
        with open(OUT) as f:
            old = f.read()
    if old != text:
        with open(OUT, "w") as f:
            f.write(text)
    info = {"opcodes": len(opbytes), "encode_arms": len(enc), "decode_arms": len(dec), "weight_arms": len(weights) + len(sp),
            "tips": tips, "misc": misc, "changed": old != text}
    print(json.dumps(info))
    return 0


if __name__ == "__main__":
    try:
        sys.exit(main())
    except TieBroken as e:
        print("TIE-BROKEN: " + str(e))
        sys.exit(3)
