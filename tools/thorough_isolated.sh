#!/bin/bash
# usage (from a snapshot of /verif, e.g. `vp run --with-repo --timeout 5h -- bash tools/thorough_isolated.sh [Cxx ...]`):
# runs the thorough tier of the given properties (default: all) in the directory it is started from (a copy of /verif)
# against a copy of the repository, touching neither /repo nor /verif.  One summary line per property.
set -u
HERE=$(pwd)
REPO=${VP_RUN_REPO:-}
if [ -z "$REPO" ]; then
  REPO=$(mktemp -d /tmp/thorough_repo.XXXX)
  git clone -q /repo "$REPO" || exit 2
fi
export VERIF_REPO=$REPO
sed -i "s#path = \"/repo#path = \"$REPO#" harness/Cargo.toml
sed -i "s#target-dir = \"/verif/harness/target\"#target-dir = \"$HERE/harness/target\"#" harness/.cargo/config.toml
grep -q "$HERE/harness/target" harness/.cargo/config.toml || { echo "could not redirect the target directory"; exit 2; }
cp $REPO/Cargo.lock harness/Cargo.lock 2>/dev/null
python3 tools/check.py setup > setup.log 2>&1 || { echo "setup failed"; tail -20 setup.log; exit 2; }
props="$@"
[ -z "$props" ] && props=$(python3 -c "import sys; sys.path.insert(0,'tools'); import props; print(' '.join(sorted(props.PROPS)))")
for p in $props; do
  out=$(python3 tools/check.py run $p thorough 2>&1); rc=$?
  echo "$out" | grep -E "^VIOLATION|^KNOWN-FINDING" | cut -c1-300 | head -8
  echo "$out" | tail -1
  [ $rc -ne 0 ] && { mkdir -p kept_replays; cp evidence/replays/$p-* kept_replays/ 2>/dev/null; }
done
