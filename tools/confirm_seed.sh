#!/bin/bash
# usage: confirm_seed.sh <Cxx>   -- confirms a seeded change in its scratch worktree /tmp/seed_<Cxx>:
#   with the patch: builds, the 76 baseline tests pass (same 4 fail), the demonstration fails;
#   without the patch: the demonstration passes.  Writes /tmp/seed_<Cxx>/out/confirm.txt
set -u
P=$1; W=${2:-/tmp/seed_$P}; O=$W/out
cd $W || exit 2
export CARGO_NET_OFFLINE=true
demo=$(ls tests/seed*_*.rs 2>/dev/null | head -1)
{
echo "== seed $P confirm $(date -u +%FT%TZ)"
echo "patch: $(grep -c '^+[^+]' $O/patch.diff) added / $(grep -c '^-[^-]' $O/patch.diff) removed lines; files: $(grep '^+++ ' $O/patch.diff | tr '\n' ' ')"
git diff --stat -- src lib | tail -1
echo "-- with patch: full suite"
cargo test --workspace --no-fail-fast --offline 2>&1 | grep -E "^test result|FAILED|failed" | sort | uniq -c | head -20
if [ -n "$demo" ]; then
  t=$(basename $demo .rs)
  echo "-- with patch: demo $t"
  cargo test --offline --test $t 2>&1 | grep -E "^test |test result" | head -10
fi
git diff -- src lib > /tmp/seed_$P.patch.tmp
git checkout -q -- src lib
if [ -n "$demo" ]; then
  echo "-- without patch: demo $t"
  cargo test --offline --test $t 2>&1 | grep -E "^test |test result" | head -10
fi
git apply /tmp/seed_$P.patch.tmp && rm /tmp/seed_$P.patch.tmp
echo "== done"
} > $O/confirm.txt 2>&1
cat $O/confirm.txt
