#!/usr/bin/env python3
"""Fingerprints of /repo's Rust sources (comments, blank space and the cfg(melstf_verif) hook lines removed).

  source_fingerprint.py --write     record the current tree as the baseline (tools/source_baseline.json; run after
                                    every commit to /repo and commit the file)
  source_fingerprint.py             print the files whose code differs from the baseline

tools/check.py uses `changed()`: when the code of /repo differs from the tree the committed baseline was taken from,
the quick tier spends the idle cores on a larger sample (more shards of the state streams, more VM cases).  A changed
fingerprint is never reported by itself - it only decides how much is explored.
"""
import hashlib, json, os, re, sys

REPO = os.environ.get("VERIF_REPO", "/repo")
BASE = os.path.join(os.path.dirname(os.path.abspath(__file__)), "source_baseline.json")
DIRS = ["src", "lib/melvm/src", "lib/tip911-stakeset/src"]


def normalise(text):
    text = re.sub(r"/\*.*?\*/", "", text, flags=re.S)
    out = []
    skip_next = False
    for line in text.split("\n"):
        l = re.sub(r"//.*", "", line).strip()
        if not l:
            continue
        out.append(re.sub(r"\s+", " ", l))
    return "\n".join(out)


def current():
    fp = {}
    for d in DIRS:
        for dp, dn, fn in os.walk(os.path.join(REPO, d)):
            for f in sorted(fn):
                if f.endswith(".rs"):
                    p = os.path.join(dp, f)
                    rel = os.path.relpath(p, REPO)
                    fp[rel] = hashlib.sha256(normalise(open(p, errors="replace").read()).encode()).hexdigest()[:20]
    return fp


def changed():
    """list of source files whose code differs from the committed baseline (missing baseline: nothing is 'changed')"""
    if not os.path.exists(BASE):
        return []
    base = json.load(open(BASE))["files"]
    cur = current()
    return sorted(k for k in set(base) | set(cur) if base.get(k) != cur.get(k))


if __name__ == "__main__":
    if "--write" in sys.argv:
        json.dump({"files": current()}, open(BASE, "w"), indent=1, sort_keys=True)
        print("baseline written:", len(current()), "files")
    else:
        print("\n".join(changed()) or "no code change against the baseline")
