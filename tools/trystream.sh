#!/bin/bash
# usage: trystream.sh <stream> <seed> <count> [thorough]
set -e
d=/tmp/vh; mkdir -p $d
/verif/harness/target/debug/melstf-verif-harness gen $1 $2 $3 $d $4 > $d/$1.stats
/verif/lean/.lake/build/bin/driver < $d/$1.ops > $d/$1.model
python3 - $1 <<'PY'
import sys
s=sys.argv[1]
a=open(f'/tmp/vh/{s}.impl').read().split('\n'); b=open(f'/tmp/vh/{s}.model').read().split('\n'); ops=open(f'/tmp/vh/{s}.ops').read().split('\n')
n=0; kinds={}
for i,(x,y) in enumerate(zip(a,b)):
    if x!=y:
        n+=1
        k=ops[i].split(' ')[0]+':'+x.split(' ')[0]+'/'+y.split(' ')[0]
        kinds[k]=kinds.get(k,0)+1
print(s,'lines',len(a),'diffs',n,kinds)
PY
