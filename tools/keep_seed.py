#!/usr/bin/env python3
"""keep_seed.py <Cxx> <seed-id> <caught-by text> [worktree]  -- copies a confirmed seeded change from /tmp/seed_<Cxx>/out to /verif/seeded/<seed-id>/"""
import sys, os, shutil, json, re, glob
prop, sid, caught = sys.argv[1], sys.argv[2], sys.argv[3]
wt = sys.argv[4] if len(sys.argv) > 4 else "/tmp/seed_%s" % prop
src = wt + "/out"
dst = "/verif/seeded/%s" % sid
os.makedirs(dst, exist_ok=True)
for f in os.listdir(src):
    shutil.copy(os.path.join(src, f), os.path.join(dst, f))
demo = glob.glob(wt + "/tests/seed*_*.rs")
for d in demo:
    shutil.copy(d, dst)
notes = open(os.path.join(src, "notes.md")).read() if os.path.exists(os.path.join(src, "notes.md")) else ""
confirm = open(os.path.join(src, "confirm.txt")).read() if os.path.exists(os.path.join(src, "confirm.txt")) else ""
with_fail = bool(re.search(r"-- with patch: demo.*?FAILED", confirm, flags=re.S))
without_ok = bool(re.search(r"-- without patch: demo.*?test result: ok", confirm, flags=re.S))
suite = re.findall(r"test result: (?:FAILED|ok)\. (\d+) passed; (\d+) failed", confirm.split("-- with patch: demo")[0])
meta = {
    "property": prop,
    "seed_id": sid,
    "files_changed": re.findall(r"^\+\+\+ b/(\S+)", open(os.path.join(src, "patch.diff")).read(), flags=re.M),
    "needs_to_manifest": notes.strip()[:1500],
    "confirmed_in_scratch_worktree": {
        "command": "tools/confirm_seed.sh %s (cargo test --workspace --no-fail-fast --offline with the patch; demo test with and without the patch)" % prop,
        "suite_with_patch_passed_failed": suite,
        "demo_fails_with_patch": with_fail,
        "demo_passes_without_patch": without_ok,
    },
    "apply": "git -C /repo apply /verif/seeded/%s/patch.diff ; <run checks> ; git -C /repo checkout -- ." % sid,
    "caught_by": caught,
}
json.dump(meta, open(os.path.join(dst, "meta.json"), "w"), indent=1)
print(json.dumps(meta["confirmed_in_scratch_worktree"]))
