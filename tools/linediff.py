#!/usr/bin/env python3
"""show the first differing lines between impl and model outputs, token by token"""
import sys
s=sys.argv[1]; maxn=int(sys.argv[2]) if len(sys.argv)>2 else 3
d=sys.argv[3] if len(sys.argv)>3 else '/tmp/vh'
a=open(f'{d}/{s}.impl').read().split('\n'); b=open(f'{d}/{s}.model').read().split('\n'); ops=open(f'{d}/{s}.ops').read().split('\n')
n=0
for i,(x,y) in enumerate(zip(a,b)):
    if x!=y:
        n+=1
        print('--- line',i,'op:',ops[i][:300])
        xt=x.split(' '); yt=y.split(' ')
        for u,v in zip(xt,yt):
            if u!=v:
                # split by ; inside brackets
                us=u.split(';'); vs=v.split(';')
                su=set(us); sv=set(vs)
                print('  impl only:',[e[:260] for e in us if e not in sv][:6])
                print('  model only:',[e[:260] for e in vs if e not in su][:6])
        if len(xt)!=len(yt): print('  token count differs',len(xt),len(yt))
        if n>=maxn: break
