"""Texts for MANIFEST.json (what each check claims)."""

NOTE_COMMON = ("Trusted: Lean kernel + {propext, Classical.choice, Quot.sound}; the hand-written model is tied to /repo by regenerated tables and by "
               "differential execution (harness vs lean_exe driver), whose reach is that of the generators; external primitives (blake3, Ed25519, MelPoW, "
               "stdcode) are parameters supplied by the implementation; dependency crates are modelled, not verified.")

TEXT = {
    "C10": {
        "level": "111 theorems over the Lean executor model (all stacks, heaps, values): 256-bit wrapping arithmetic, div/rem failure iff divisor 0, Exp closed form with the exact bit budget, shifts mod 256, Hash/SigEOk length rules, heap laws, vector/bytes laws with exact out-of-range behaviour, type errors and underflow, forward-only jumps, result = top of stack, and C10_loop_exact (a counted loop runs a straight-line body exactly `it` times). The model is the instruction-by-instruction mirror of executor.rs and is compared with the real executor (result value, failure, step count) on exhaustive short programs, type-aware random programs, loop/jump/doubling families, through the real decoder.",
        "design_ref": "DESIGN.md §4 C10",
        "note": NOTE_COMMON + " Deviations of the code from the documented laws are stated as *_actual theorems (indices beyond u16, sigeok type-error masking).",
        "technique": "Lean 4 theorems on executable model + differential execution vs real VM",
    },
    "C11": {
        "level": "C11_steps_le_weight: for every program, oracle and heap the number of executed instructions is at most the un-saturated weight (potential-function proof over loop stacks), hence C11_fuel_sufficient (termination) and C11_steps_le_charged; C11_weight_saturates ties the u128-saturating value the code returns to the mathematical weight; C11_weigh_exponential proves that weighing itself costs 2^n calls for n stacked loops (known finding F2). Weight values, car-weight call counts and step counts are compared with the real code.",
        "design_ref": "DESIGN.md §4 C11",
        "note": NOTE_COMMON + " Real time and memory are only tied through the hook counters; the polynomial-cost half of the property is violated by the code (known findings).",
        "technique": "Lean 4 potential-function proof + differential execution",
    },
    "C12": {
        "level": "decode∘encode and encode∘decode are identities on the Lean codec model for every byte string and every representable program (C12_decode_encode, C12_encode_decode, C12_injective, …), proved by unfolding the opcode byte table regenerated from consts.rs and the encode/decode arms of opcode.rs; the model codec is compared with Covenant::from_bytes/to_bytes on all strings of length ≤2 (3 in thorough), every opcode with every argument class, truncations, mutations and random programs.",
        "design_ref": "DESIGN.md §4 C12",
        "note": NOTE_COMMON,
        "technique": "Lean 4 round-trip theorems over generated opcode table + differential execution",
    },
    "C14": {
        "level": "decision logic of confirm stated outright and proved for all stake sets and proofs (C14_decision): confirms iff every signature is valid and 3·present > 2·total; corollaries for invalid signatures, minorities, empty proofs, unanimous proofs (tally lemma over duplicate-free keys) and monotonicity. Compared with SealedState::confirm over stake distributions × signer subsets × signature corruptions; a Python oracle recomputes the tallies from the dumped stake set.",
        "design_ref": "DESIGN.md §4 C14",
        "note": NOTE_COMMON + " The inverted comparison (F15) was repaired by a fix: commit; C14_old_inverted records what was wrong.",
        "technique": "Lean 4 decision-logic theorems + differential execution + tally oracle",
    },
    "C17": {
        "level": "closed form of the fee-multiplier move on the whole domain m ≤ 2^128−1, δ ∈ [−128,127], TIP-901 on/off (C17_closed_form, C17_exact_range, C17_no_wrap) by arithmetic, plus C17_no_action / C17_action: sealing changes the multiplier by exactly that function and not at all without an action (invariant through every Melmint phase). Compared with the real seal on all deltas × multipliers around every power of two and long runs of extreme deltas; a Python oracle recomputes the specified step.",
        "design_ref": "DESIGN.md §4 C17",
        "note": NOTE_COMMON + " The i64 overflow / u128 underflow (F7) was repaired by a fix: commit; C17_old_* record what was wrong and that the repair agrees with the old code on 2 ≤ m < 2^63.",
        "technique": "Lean 4 arithmetic theorems + exhaustive-delta differential execution",
    },
    "C20": {
        "level": "coin-map level: the count invariant (entry = number of coins per covenant hash, no zero entries, unique keys) is preserved by insert_coin on a fresh key or with unchanged covenant hash, by remove_coin (which then never underflows), is determined by the coin content, and is established by the TIP-906 activation fold (C20_*). Every count entry of every state of apply/seal/chain histories (including Testnet histories crossing height 500) is compared with the model and recounted from the real coin tree by a Python oracle.",
        "design_ref": "DESIGN.md §4 C20",
        "note": NOTE_COMMON + " The state-level lift (each call site meets the side condition) is checked by the correspondence and the recount oracle, not yet by a theorem.",
        "technique": "Lean 4 invariant theorems on the coin map + recount oracle on real trees",
    },
}

NOTES = "See DESIGN.md. known_findings.json lists genuine defects that were repaired (fixed:) or recorded (open)."

NOT_YET = {
    "C01": "in progress: model and correspondence exist; theorem and oracle not yet registered",
    "C02": "in progress: model and correspondence exist; theorem and oracle not yet registered",
    "C03": "in progress",
    "C04": "in progress",
    "C05": "in progress",
    "C06": "in progress",
    "C07": "in progress",
    "C08": "in progress",
    "C09": "in progress",
    "C13": "in progress",
    "C15": "in progress",
    "C16": "in progress",
    "C18": "in progress",
    "C19": "in progress",
}
