"""Texts for MANIFEST.json (what each check claims)."""

NOTE_COMMON = ("Trusted: Lean kernel + {propext, Classical.choice, Quot.sound}; the hand-written model is tied to /repo by regenerated tables and by "
               "differential execution (harness vs lean_exe driver), whose reach is that of the generators; external primitives (blake3, Ed25519, MelPoW, "
               "stdcode) are parameters supplied by the implementation; dependency crates are modelled, not verified.")

TEXT = {
    "C09": {
        "level": "C09_apply_total: under the reachable-state assumptions ApplyPre, applying ANY batch of arbitrary transactions returns a state or a rejection, never a crash (every panic / overflow / unwrap site of the code is a `crash` outcome of the model; all four crashing phases are covered); C09_load_total, C09_stake_info_total, C09_scripts_total hold unconditionally; C09_seal_total and C09_seal_ok(_priced): under SealTotalPre (which since the fix for F24 no longer assumes that a builtin pool is not drained by the block's withdrawals: a drained one is re-created before its price is read — C09_drained_ergsym_seals at the very state that used to crash) sealing with any action never crashes and never rejects, and leaves every builtin pool priced; C09_swap/deposit/withdraw/action/swaps_total; machine-checked witnesses show each assumption is needed (C09_swap_needs_u128, C09_doscmint_*_crash, C09_reward_overflow_witness). Termination is by construction plus C11. The real code is run on hostile inputs (arbitrary bytes in data/covenants/signatures, zero and maximal values, 254-256 outputs, garbage proofs and stake documents, every delta) under catch_unwind; a panic is an output the model must match.",
        "design_ref": "DESIGN.md §4 C09",
        "note": NOTE_COMMON + " Repaired by fix: commits: F3, F3b, F16, F7, F10 (assert), F18, withdraw guard. Also repaired: F9, F13, F19, F2, F21, F22, F23, F24. Open known finding: F17 (native stack overflow when a deeply nested value is dropped).",
        "technique": "Lean 4 totality theorems over an explicit crash outcome + hostile-input differential execution",
    },
    "C10": {
        "level": "122 theorems over the Lean executor model (all stacks, heaps, values): 256-bit wrapping arithmetic, div/rem failure iff divisor 0, Exp closed form with the exact bit budget, shifts mod 256, Hash/SigEOk length rules, heap laws, vector/bytes laws with exact out-of-range behaviour, type errors and underflow, forward-only jumps, result = top of stack, and C10_loop_exact (a counted loop runs a straight-line body exactly `it` times). The model is the instruction-by-instruction mirror of executor.rs and is compared with the real executor (result value, failure, step count) on exhaustive short programs, type-aware random programs, loop/jump/doubling families, operands beyond u16, values of 2^16 … 2^17 elements under every length- or index-taking instruction, through the real decoder.",
        "design_ref": "DESIGN.md §4 C10",
        "note": NOTE_COMMON + " Deviations of the code from the documented laws are stated as *_actual theorems (indices beyond u16, sigeok type-error masking, an empty-bodied loop's stale frame, a loop body running past the end of the program).",
        "technique": "Lean 4 theorems on executable model + differential execution vs real VM",
    },
    "C11": {
        "level": "C11_steps_le_weight: for every program, oracle and heap the number of executed instructions is at most the un-saturated weight (potential-function proof over loop stacks), hence C11_fuel_sufficient (termination) and C11_steps_le_charged(_impl); C11_weight_saturates ties the u128-saturating value to the mathematical weight; C11_weightDP_eq_weight: the weigher as implemented since fix 34e0e18 (one right-to-left pass per distinct loop-body end, modelled as weightDP) returns exactly the specified weight for every program, and C11_weigh_quadratic(_sharp) / C11_weigh_linear_in_ends / C11_ends_le bound the steps it makes by |ops|(|ops|+1)/2 and by |ops|(loops+1); C11_weigh_exponential is kept as a theorem about the old recursion (finding F2, fixed). Weight values, the weigher's step counter (hook) and executed step counts are compared with the real code on every weighed program; harness facts bound the weigher's total steps by (bytes+1)^2 and what an execution allocates by its weight.",
        "design_ref": "DESIGN.md §4 C11",
        "note": NOTE_COMMON + " Real time and memory are only tied through the hook counters and the counting allocator; F2, F13, F14 repaired by fix: commits; the native-stack overflow when a deeply nested value is dropped (F17, dependency/runtime) stays an open known finding.",
        "technique": "Lean 4 potential-function proof + refinement of the implemented weigher to the specification + differential execution",
    },
    "C12": {
        "level": "decode∘encode and encode∘decode are identities on the Lean codec model for every byte string and every representable program (C12_decode_encode, C12_encode_decode, C12_injective, …), proved by unfolding the opcode byte table regenerated from consts.rs and the encode/decode arms of opcode.rs; the model codec is compared with Covenant::from_bytes/to_bytes on all strings of length ≤2 (3 in thorough), every opcode with every argument class, truncations, mutations and random programs.",
        "design_ref": "DESIGN.md §4 C12",
        "note": NOTE_COMMON,
        "technique": "Lean 4 round-trip theorems over generated opcode table + differential execution",
    },
    "C14": {
        "level": "decision logic of confirm stated outright and proved for all stake sets and proofs (C14_decision): confirms iff every signature is valid and 3·present > 2·total; corollaries for invalid signatures, minorities, empty proofs, unanimous proofs (tally lemma over duplicate-free keys) and monotonicity. Compared with SealedState::confirm over stake distributions × signer subsets × signature corruptions; a Python oracle recomputes the tallies from the dumped stake set. After the fix: of the vote-sum overflow (F21) the tallies saturate: C14_decision_total (the two-thirds rule whenever the total is below u128::MAX), C14_saturated_total (a saturated total confirms nothing), C14_no_vote_overflow_crash.",
        "design_ref": "DESIGN.md §4 C14",
        "note": NOTE_COMMON + " The inverted comparison (F15) was repaired by a fix: commit; C14_old_inverted records what was wrong.",
        "technique": "Lean 4 decision-logic theorems + differential execution + tally oracle",
    },
    "C17": {
        "level": "closed form of the fee-multiplier move on the whole domain m ≤ 2^128−1, δ ∈ [−128,127], TIP-901 on/off (C17_closed_form, C17_exact_range, C17_no_wrap) by arithmetic, plus C17_no_action / C17_action: sealing changes the multiplier by exactly that function and not at all without an action (invariant through every Melmint phase). Compared with the real seal on all deltas × multipliers around every power of two and long runs of extreme deltas; a Python oracle recomputes the specified step.",
        "design_ref": "DESIGN.md §4 C17",
        "note": NOTE_COMMON + " The i64 overflow / u128 underflow (F7) was repaired by a fix: commit; C17_old_* record what was wrong and that the repair agrees with the old code on 2 ≤ m < 2^63.",
        "technique": "Lean 4 arithmetic theorems + exhaustive-delta differential execution",
    },
    "C01": {
        "level": "C01_apply: for every state and every accepted batch — any kinds, any order, members spending each other — the supply of every denomination (coins + pool reserves + fee pool and tips for MEL) grows by at most the declared issuance (faucet outputs and fee, a transaction's own new token, ERG outputs of an ERG mint); C01_apply_closed; C01_tx_balanced; C01_next. Sealing: C01_settlement (swaps, deposits and withdrawals against any pools in one block create nothing, outside the legacy deposit window), C01_builtins, C01_pegging_local, C01_subsidy (SYM grows by at most 2^20 >> halvings, MEL and ERG do not grow), C01_reward (exact), C01_legacy_deposit_keeps_coin (known deviation). Per-denomination totals of every generated batch/seal/next are compared with the model and checked against the declared issuance by a Python oracle on the real dumps. Whole block (Props/C01Whole): C01_pegging_bounded (the peg adjustment touches only the MEL/SYM pool and creates at most u128::MAX/throttler of MEL or SYM), C01_seal_whole (supply after sealState ≤ supply before + builtin creation + peg + TIP-909 subsidy for every non-liquidity-token denomination), C01_block_whole / C01_block_closed (batch + seal + next block), C01_action_neutral.",
        "design_ref": "DESIGN.md §4 C01",
        "note": NOTE_COMMON + " Open known findings: legacy deposit rule (inflation below height 978392 on Mainnet/Testnet), F11 (grandfathered faucet replay).",
        "technique": "Lean 4 conservation theorems (batch + every sealing phase) + differential execution + supply oracle",
    },
    "C02": {
        "level": "C02_exact: after an accepted batch, for every coin id, the coin set is exactly (previous − every input) + every created output (declared value/covenant/additional data, creating height, NewCustom ↦ Custom(txhash), destroyed outputs omitted) + faucet markers — proved for all states and batches, including batches whose members spend each other in any order; C02_no_double_spend, C02_inputs_exist, C02_each_valid, C02_repeat_rejected, C02_missing_rejected, C02_reject_noop. The coin set after every generated batch is compared with the model and with an independent Python map-based reference; a harness fact checks that a rejected batch leaves the real state (dump and sealed header) untouched.",
        "design_ref": "DESIGN.md §4 C02",
        "note": NOTE_COMMON + " Before the fix: commit 076ec87 the exact statement was false (F1).",
        "technique": "Lean 4 refinement theorem (coin map = declarative spec) + differential execution + reference-map oracle",
    },
    "C03": {
        "level": "C03_perm / C03_perm_reject: for every state and every batch of hash-distinct transactions, any permutation of an accepted batch is accepted with the same observable state (every coin, count, stake, the transaction list, fee pool, tips, speed) and a rejected batch is rejected in every order; C03_forall_perm, C03_max_perm, C03_satsum_perm, C03_txset_perm: the reductions used by the parallel code are order-independent folds; a machine-checked witness shows which side condition is really needed (a batch spending the pseudo-coin of a grandfathered faucet is order-dependent). The real code is run on every permutation of every small generated batch, one transaction at a time in dependency order, under several rayon pool sizes with byte-identical outputs required, and through apply_block with arbitrarily ordered transaction sets. Props/C03Seq: C03_batch_split, C03_seq_of_batch, C03_batch_of_seq, C03_seq_orders — an accepted batch equals one-at-a-time application in every dependency-respecting order and conversely (for states that have their previous header; the converse needs GfFresh, with machine-checked counterexamples).",
        "design_ref": "DESIGN.md §4 C03",
        "note": NOTE_COMMON + " Thread scheduling and hash-set iteration order are exercised, not modelled (partial). Before the fix: commit 076ec87 the theorem was false (F1). Props/C03Seq (batch = one-at-a-time in every dependency-respecting order) holds in the first block of a chain as well since fix 11c1f42 (F25: the stand-in for the missing previous header no longer depends on what was applied before); C03_fallback_unused, C03_lastHeader_stable.",
        "technique": "Lean 4 Perm-invariance theorem + permutation/sequential/rayon differential execution",
    },
    "C04": {
        "level": "C04_gate: in an accepted batch every input of every transaction has a covenant in the transaction whose hash is the coin's, that decodes, and that evaluates to a true value in that input's own environment (coin id, coin data and height, spender index, last header); C04_missing/undecodable/false force rejection; C04_env fixes the eleven heap slots; C04_std_new/legacy: the standard covenants approve iff the signature slot holds a valid Ed25519 signature of the transaction hash (symbolic execution over an arbitrary transaction). Accept/reject of every generated batch is compared with the model (which runs the covenants itself); a harness fact re-evaluates every input's covenant independently with Covenant::execute.",
        "design_ref": "DESIGN.md §4 C04",
        "note": NOTE_COMMON + " Before the fix: commit 13716fe the gate was false for later inputs sharing a covenant hash (F8).",
        "technique": "Lean 4 theorems incl. symbolic execution of std covenants + differential execution + independent covenant evaluation",
    },
    "C05": {
        "level": "C05_weight / C05_min_fee (weight and ⌊weight·multiplier/65536⌋ with the saturations the code applies), C05_threshold and C05_underpaying_rejected, C05_split (fee pool and tips after a batch, exactly), C05_split_exact, C05_reward (one coin worth fee_pool/65536 + tips; accumulators drop by exactly that; nothing else changes), C05_seal_structure (no action ⇒ no reward step). Fee pool, tips and the reward coin of every generated batch/seal are compared with the model; a Python oracle checks fee conservation and the reward equation on the real dumps.",
        "design_ref": "DESIGN.md §4 C05",
        "note": NOTE_COMMON + " Known finding F19: the covenant-weight sum in melstructs overflows for two saturated covenants.",
        "technique": "Lean 4 arithmetic/fold theorems + differential execution + fee-equation oracle",
    },
    "C13": {
        "level": "C13_register_iff (a stake is registered exactly under the stated conditions), C13_malformed, C13_locked / C13_locked_error (no output of a registered or being-registered stake can be spent; CoinLocked), C13_unlock (dropped exactly at the first block of the epoch after the end field), C13_seal_keeps_stakes, C13_votes / C13_total_votes / C13_total_is_sum_of_keys, C13_legacy_window (known deviation K2). The stake set after every batch and next_unsealed is compared with the model and recomputed by a Python oracle from the decoded stake documents; states are fabricated at epoch boundaries. Over histories (Props/C13Life): along any run of batches and blocks a registered stake stays registered and its outputs unspendable while the chain's epoch is at most its end field, is gone once a block of a later epoch has been opened, and counts for its key in between (C13_life_registered, C13_life_locked, C13_life_unlocked, C13_life_votes). Voting power is also checked through the confirm stream and oracle.",
        "design_ref": "DESIGN.md §4 C13",
        "note": NOTE_COMMON + " The legacy windows (Mainnet/Testnet below 500000 / 900000) are explicit hypotheses.",
        "technique": "Lean 4 theorems on batch and epoch transitions + differential execution + registration oracle",
    },
    "C19": {
        "level": "C19_mainnet (no faucet on mainnet but the grandfathered hash), C19_marker_inserted, C19_duplicate_rejected / C19_duplicate_error (DuplicateTx), C19_same_batch, C19_marker_unspendable (a marker survives every accepted batch: spending it needs a covenant hashing to the zero address), C19_grandfathered_no_marker (known finding F11). Faucet accept/reject and markers of generated histories (replays in the same batch, later blocks, after restore) are compared with the model and checked by a Python oracle. Over histories (Props/C19Life): C19_marker_forever and C19_never_again — once a non-grandfathered faucet transaction has been accepted, no batch containing it is accepted in any later state of the chain, across batches, seals and block openings (DuplicateTx for the transaction alone).",
        "design_ref": "DESIGN.md §4 C19",
        "note": NOTE_COMMON + " F11 (grandfathered transaction replayable) is pinned by a passing test and recorded as a known finding.",
        "technique": "Lean 4 invariant theorems + differential execution + marker oracle",
    },
    "C06": {
        "level": "C06_iff (a block is accepted iff all its transactions are valid against the successor state and its header equals the header obtained by applying them and the action and sealing), C06_result_header, C06_honest (honestly built blocks are accepted and yield exactly the sealed state; the genesis fallback header is irrelevant after next_unsealed), C06_header_mutation (any header change ⇒ WrongHeader), C06_deterministic / C06_content_mutation (a changed transaction set or action is accepted only if it seals to the very same header), C06_delta_equivalent + witness (known finding F12). apply_block verdicts of honest blocks and of every single-field mutation (11 header fields, transaction add/remove/edit, action toggle/delta/destination) are compared with the model; harness facts check that honest blocks are accepted, that the returned state has the block's header, and that no mutated block is accepted.",
        "design_ref": "DESIGN.md §4 C06",
        "note": NOTE_COMMON + " F12 (δ-equivalent proposer actions) is an open known finding.",
        "technique": "Lean 4 iff-characterisation of apply_block + differential execution + block-mutation facts",
    },
    "C07": {
        "level": "Merkle part (generic in the two hash functions, with novasmt's zero rules): the root computed by insertions equals the root of the content (C07_root_of_content) so equal contents give equal roots, inserts commute, deletes restore; proofs are complete (C07_proof_complete) and, with hash injectivity away from the zero rules, sound (C07_proof_sound), and different contents have different roots; dense tree completeness (C07_dense_complete); non-vacuity with concrete injective hashers. Chain part: C07_chain (height+1, previous = hash of parent header, network constant, history extended by exactly the parent header), C07_sensitive (equal headers ⇒ equal coins, counts, pools, stakes, transactions, history, fee pool, multiplier, DOSC speed — not tips), C07_scalar_change. Headers produced by next_unsealed / apply_block / restore are compared with the model field by field (the model computes scalars, previous-hash and heights itself); harness facts check on the real trees that every root is the root of an independently built tree of the state's content, that members and absences are provable, and — at the end of every history — that each sealed state's header read again is still the header it was sealed with.",
        "design_ref": "DESIGN.md §4 C07",
        "note": NOTE_COMMON + " novasmt's hexary compression and node store are only exercised. Collision-freeness is an explicit hypothesis.",
        "technique": "Lean 4 theorems on a symbolic SMT and on the header chain + differential execution",
    },
    "C08": {
        "level": "C08_roundtrip: restoring from the block (with the stake set and the trees the roots denote) gives back every field of the state except the pending tips; C08_restart_partial: with no pending tips the rebuilt state *is* the original, hence identical on every continuation; C08_tips_zero_after_action (sealing with an action is always a faithful restart point); the known finding F6 is proved on the model (C08_tips_kept_without_action, C08_tips_lost_on_restore, C08_reward_depends_on_tips). The dump of every restored state and the continuation from it are compared with the model.",
        "design_ref": "DESIGN.md §4 C08",
        "note": NOTE_COMMON + " F6 (pending tips are not in the block) is an open known finding; the content-addressed store is not modelled.",
        "technique": "Lean 4 round-trip theorem + differential execution of restore and continuation",
    },
    "C15": {
        "level": "C15_kind_filter (sealing leaves every coin that is not an output of a swap/deposit/withdrawal transaction naming a pool canonically — and is not the reward coin — exactly as it was), C15_kinds / C15_requests_name_pool, C15_canonical / C15_one_spelling / C15_reversed_rejected (a pool name has one accepted spelling; reversed, equal-sided and NewCustom names are rejected), C15_swap_own_denom, C15_swap_exact (reserves move by exactly paid-in minus withdrawn; withdrawn = constant-product amount less 0.5%, rounded down), C15_product (never decreases), C15_swap_keeps_reserves, C15_pro_rata (Σ⌊T·vᵢ/Σv⌋ ≤ T), C15_deposit, C15_withdraw. Coins and pools after every seal are compared with the model (blocks mixing all kinds, spellings, both sides, amounts 1…2^120); a Python oracle checks the kind filter, own-denomination and product on the real dumps.",
        "design_ref": "DESIGN.md §4 C15",
        "note": NOTE_COMMON + " F4 (no kind test) and F5 (non-canonical names alias slots) were repaired by fix: commits; the legacy deposit rule is an open known finding.",
        "technique": "Lean 4 invariant + Nat-arithmetic theorems + differential execution + settlement oracle",
    },
    "C16": {
        "level": "C16_builtins_created / C16_builtins_exist (after every successful seal each builtin pool exists), C16_default_has_reserves, C16_partial_withdraw_keeps_reserves, C16_deposit_keeps_reserves, C16_deposit_amounts_positive, C16_subsidy_keeps_reserves, C16_issue_backed (tokens handed out for a block's deposits into a pool never exceed the liquidity recorded for them), C16_withdraw_guard, C16_old_overissue (what was wrong before the fix, F10). Pools after every seal are compared with the model; a Python oracle checks on the real dumps that the builtin pools exist with reserves and that liquidity tokens held in coins never exceed pool.liqs. History level (Props/C16Hist): Backed (tokens of a pool in coins and in other pools' reserves ≤ the liquidity the pool records) is preserved by every batch that does not mint the token, by settlement, builtin creation, pegging and the whole sealState, for canonical pool keys outside the legacy deposit window (C16_backed_batch / _settle / _seal); C16_old_saturating_deposit and C16_saturating_deposit_skipped record the defect K-liq-saturation and its fix; C16_builtins_priced_after_withdrawals, C16_drained_ergsym_seals / _recreated / _sealed_values and C16_old_drained_ergsym_crashes record F24 (a builtin pool emptied by the block's withdrawals is re-created before pegging reads its price) and its fix.",
        "design_ref": "DESIGN.md §4 C16",
        "note": NOTE_COMMON + " The history-level invariant is checked by the oracle, its per-step lemmas are proved. K-faucet-liq (an off-mainnet faucet can mint liquidity tokens) is an open known finding.",
        "technique": "Lean 4 per-step invariant lemmas + differential execution + backing oracle",
    },
    "C18": {
        "level": "C18_sound: an accepted ERG mint has a decodable (difficulty, proof), a MelPoW verdict legacy/TIP-910 for the puzzle seeded by the header at the spent coin's height and that coin's id, on mainnet a coin at least 100 blocks old, the measured speed (100·)2^d/age, and ERG outputs ≤ the inflated reward work·speed·10^6/(prevSpeed²·2880); C18_invalid_proof / C18_bad_proof_rejected / C18_panicking_proof_rejected / undecodable / too_recent reject; C18_batch_validates, C18_erg_balanced (no other kind creates ERG), C18_speed_monotone / unchanged / is_max. Accept/reject and the DOSC speed of batches with real small-difficulty proofs under both hashers (corrupted proofs, wrong seeds, ERG at bound−1/bound/bound+1) are compared with the model.",
        "design_ref": "DESIGN.md §4 C18",
        "note": NOTE_COMMON + " The MelPoW verdict is an input of the model (the dependency's verifier is trusted base): C18_sound says an accepted mint was accepted by that verifier. F9 (the verifier panics on proofs lacking nodes) is repaired at the call site (C18_panicking_proof_rejected); that the verifier accepts proofs written down without sequential work (K-melpow-forgeable, dependency crate) is an open known finding reproduced by a probe on every run.",
        "technique": "Lean 4 soundness theorem of the mint validation + differential execution with real proofs",
    },
    "C20": {
        "level": "coin-map level: the count invariant (entry = number of coins per covenant hash, no zero entries, unique keys) is preserved by insert_coin on a fresh key or with unchanged covenant hash, by remove_coin (which then never underflows), is determined by the coin content, and is established by the TIP-906 activation fold (C20_*). Every count entry of every state of apply/seal/chain histories (including Testnet histories crossing height 500) is compared with the model and recounted from the real coin tree by a Python oracle. State level (Props/Reach): reachable_inv — every state reachable from a genesis state by accepted batches and sealed blocks satisfies the structural invariant, in particular C20_reachable (the counts are exact and zero-free in every reachable state once TIP-906 is active, no count entry before), under the hash-freshness premises BatchFresh / RewardFresh / MarkerFresh (each shown necessary by a machine-checked counterexample).",
        "design_ref": "DESIGN.md §4 C20",
        "note": NOTE_COMMON + " The state-level lift (each call site meets the side condition) is checked by the correspondence and the recount oracle, not yet by a theorem.",
        "technique": "Lean 4 invariant theorems on the coin map + recount oracle on real trees",
    },
}

NOTES = "See DESIGN.md. known_findings.json lists genuine defects that were repaired (fixed:) or recorded (open)."

NOT_YET = {
}
