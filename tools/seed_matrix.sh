#!/bin/bash
# usage: seed_matrix.sh [tier]  -- applies every kept seeded change to /repo in turn, runs the targeted property's check,
# undoes the change, and writes seeded/MATRIX.md (seed, exit code, summary line).  /repo must be clean.
set -u
tier=${1:-quick}
cd /verif
[ -n "$(git -C /repo status --short)" ] && { echo "/repo is not clean"; exit 2; }
out=seeded/MATRIX.md
{
echo "# seeded changes vs the $tier tier of the property they target"
echo
echo "| seed | exit | summary |"
echo "|---|---|---|"
} > $out
miss=0
for d in seeded/C*/; do
  sid=$(basename $d); p=${sid%%-*}
  if grep -q '"neutralised"' $d/meta.json; then echo "| $sid | - | neutralised by a later fix: commit (see meta.json) |" >> $out; echo "$sid -> neutralised"; continue; fi
  res=$(TIER=$tier tools/try_seed.sh /verif/$d/patch.diff $p 2>&1)
  rc=$(echo "$res" | grep -o "exit [0-9]*" | tail -1 | cut -d' ' -f2)
  echo "$res" | grep -q "patch does not apply" && rc="patch-does-not-apply"
  line=$(echo "$res" | grep -E "^$p $tier:" | tail -1)
  echo "| $sid | $rc | ${line} |" >> $out
  echo "$sid -> exit $rc"
  [ "$rc" = "1" ] || miss=$((miss+1))
done
echo >> $out
echo "not reported: $miss" >> $out
echo "not reported: $miss"
