#!/bin/bash
# runs every registered check (quick by default) on the current tree; prints one summary line per property
cd /verif
tier=${1:-quick}
fail=0
for p in $(python3 -c "import sys; sys.path.insert(0,'tools'); import props; print(' '.join(sorted(props.PROPS)))"); do
  out=$(python3 tools/check.py run $p $tier 2>&1); rc=$?
  echo "$out" | grep -E "^VIOLATION" | head -3
  echo "$out" | tail -1
  [ $rc -ne 0 ] && fail=1
done
exit $fail
